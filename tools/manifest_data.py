ENGINES = [
    {"name": "P", "path": "vlib/penv.py", "serves_properties": ["C01", "C06", "C07", "C12"],
     "kind_free_text": "real RequestParser over segmented in-memory sources; Hypothesis generators + independent RFC 9112 reference reader"},
]
NOT_APPLICABLE = {}
CHECKS = [
    {"id": "C01", "engine": "P",
     "technique": "property-based differential testing (Hypothesis) against an independent strict RFC 9112 framing reader",
     "text": "Generated-input search: obfuscated pipelined request streams x safe configs are parsed by the real RequestParser and "
             "compared with an independent strict reader (body bytes, end offset, listed must-reject classes, no request after a "
             "framing error, independence from how much body the app read). Exploration only: absence is not established.",
     "note": "trusts vlib/ref_request.py as the reading of RFC 9112; documented-unsafe parser modes excluded; one-directional (gunicorn may reject more)"},
]
