ENGINES = [
    {"name": "R", "path": "vlib/renv.py", "serves_properties": ["C04", "C10", "C14", "C20", "C11", "C18", "C02", "C03", "C05", "C06", "C12", "C13", "C17"],
     "kind_free_text": "real gunicorn master + workers started from the working tree through vlib/rfiles/launcher.py, raw-socket clients, gate-file test application, /proc and file-system observation"},
    {"name": "T", "path": "vlib/tsim.py", "serves_properties": ["C13", "C18", "C11"],
     "kind_free_text": "real ThreadWorker.init_process (pool, poller, lock)/run()/accept/finish_request/murder_keepalived/handle with scripted selector, listener, sockets, executor, logical threads and virtual time (gunicorn.workers.gthread.time/futures replaced)"},
    {"name": "K", "path": "vlib/ksim.py", "serves_properties": ["C03", "C11", "C04"],
     "kind_free_text": "real Arbiter.run() with gunicorn.arbiter.{os,time,select,signal,sock,systemd,random} replaced by a simulated kernel driven by a generated schedule vector"},
    {"name": "F", "path": "checks/c17.py", "serves_properties": ["C17"],
     "kind_free_text": "real Pidfile on a scratch directory, gunicorn.pidfile.os/tempfile replaced by proxies (per-instance getpid, model-driven liveness, crash injection)"},
    {"name": "G", "path": "checks/c16.py", "serves_properties": ["C16"],
     "kind_free_text": "real WSGIApplication config load in-process under generated argv / GUNICORN_CMD_ARGS / config file / framework dict"},
    {"name": "W", "path": "vlib/wenv.py", "serves_properties": ["C02", "C05", "C08", "C09", "C15", "C18", "C19"],
     "kind_free_text": "real Sync/Thread/Gevent/Eventlet worker objects (no fork) serving scripted fake sockets through handle(); generated WSGI application programs; capturing real glogging.Logger"},
    {"name": "P", "path": "vlib/penv.py", "serves_properties": ["C01", "C06", "C07", "C12"],
     "kind_free_text": "real RequestParser over segmented in-memory sources; Hypothesis generators + independent RFC 9112 reference reader"},
]
NOT_APPLICABLE = {}
CHECKS = [
    {"id": "C01", "engine": "P",
     "technique": "property-based differential testing (Hypothesis) against an independent strict RFC 9112 framing reader",
     "text": "Generated-input search: obfuscated pipelined request streams x safe configs are parsed by the real RequestParser and "
             "compared with an independent strict reader (body bytes, end offset, listed must-reject classes, no request after a "
             "framing error, independence from how much body the app read). Exploration only: absence is not established.",
     "note": "trusts vlib/ref_request.py as the reading of RFC 9112; documented-unsafe parser modes excluded; one-directional (gunicorn may reject more)"},
    {"id": "C06", "engine": "P",
     "technique": "property-based metamorphic testing (Hypothesis + exhaustive single-cut enumeration): same stream under different read segmentations",
     "text": "Generated streams (obfuscated, conforming, limit-sized, long chunk lines) x configs are fed block-wise and under every single cut "
             "(exhaustive <=400 bytes), byte-wise, line-wise, around every CR/LF, drawn multi-cuts and 2-cuts (thorough: all 2-cuts for short streams); "
             "every observation field and the terminal outcome class must be identical. Exploration; exhaustive only for the single-cut sub-domain of each stream.",
     "note": "reads <= 8192 bytes; exception messages not compared, classes are; end offset not compared after a body error"},
    {"id": "C07", "engine": "P",
     "technique": "model-based property testing (Hypothesis): call programs over wsgi.input compared call-by-call with io.BytesIO",
     "text": "Generated bodies x framings x chunk layouts x read/readline/readlines/iteration programs x segmentations x drain-or-not, followed by a "
             "pipelined request: each call result equals io.BytesIO's, EOF is sticky, and the next request parses with equal fields and body.",
     "note": "readlines(hint) may ignore the hint; only accepted (conforming) requests are in scope"},
    {"id": "C12", "engine": "P",
     "technique": "property-based boundary testing (Hypothesis) + exhaustive enumeration of endless metered sources",
     "text": "Limit configs x requests placed d in -4..+4 of each limit (incl. underscore-named fields, segmentations): over => never yielded, within => no "
             "Limit* rejection; and an enumerated family of endless sources (request line, header line/block, chunk-size line, chunk extension, trailer "
             "line/block, PROXY line) x configs x read sizes must be rejected before B(cfg) bytes are consumed.",
     "note": "2-byte band at each size boundary (size with or without CRLF); 0=unlimited exempts the item it unlimits; B(cfg)=2*(line+max_buffer_headers)+64KiB"},
    {"id": "C02", "engine": "W",
     "technique": "property-based testing (Hypothesis) of generated requests x generated WSGI application programs against an independent strict HTTP response reader",
     "text": "Pipelined request heads x application programs (status, headers, list/generator/write()/file_wrapper bodies, failure points) x 4 worker "
             "classes x keep-alive x sendfile are served by the real handle() on a scripted socket; the bytes the client received are parsed by an "
             "independent strict reader: one final response per call, body equals output cut to Content-Length, framing consistent with the head, "
             "exactly one terminating chunk, nothing after the last response, keep-alive only when self-delimiting/not refused/announced.",
     "note": "fake socket instead of a kernel socket (sendfile emulated with pread); misbehaving applications excluded; client sends everything then half-closes"},
    {"id": "C09", "engine": "W",
     "technique": "property-based testing (Hypothesis) over the full character alphabet of status/header strings and start_response call programs, line-for-line head oracle",
     "text": "Status strings, header names and values over the whole alphabet (forbidden bytes at every position class), hop-by-hop names, websocket "
             "upgrade and second start_response calls (with/without exc_info, before/after the first write, refused-and-survived for every kind of refusal), applications that mutate their header list after the call, and two overlapping requests inside one gthread worker (harness-owned interleaving) x 4 worker classes: forbidden input "
             "must leave nothing of the application's head on the wire; otherwise the head must equal the model line for line; plainly valid heads "
             "must not be refused.",
     "note": "server may refuse more than the statement demands; error pages (4xx/5xx written by the server itself) count as 'nothing of the application's head'"},
    {"id": "C15", "engine": "W",
     "technique": "property-based differential testing (Hypothesis) of the WSGI environ against an independent RFC 3875 / PEP 3333 mapping of the raw request bytes",
     "text": "Targets in the four request-target forms built from escapes, raw 8-bit bytes and CTLs x methods x versions x repeated/odd header lists x "
             "SCRIPT_NAME (process environment or forwarder header) x 4 worker classes are served by the real handle(); the environ the application "
             "received must equal the reference mapping key by key (incl. no invented HTTP_* keys); plain requests must be accepted.",
     "note": "fragment split at '#' as pinned by the suite; repeated Content-Type/Length may be any sent value; absolute-form with empty path may give '' or '/'"},
    {"id": "C08", "engine": "W",
     "technique": "property-based testing (Hypothesis) of header spellings x peers x trust configuration against a reference trust model of the WSGI environ",
     "text": "Keep-alive request sequences with hyphen/underscore/case spellings of proxy-fact and ordinary headers x peers (listed, unlisted, IPv6, unix) x "
             "allow lists x forwarder_headers x header_map x secure_scheme_headers x PROXY lines x an optional earlier connection from another peer to the same worker x 4 worker classes; every environ the application got "
             "is compared with the reference (exact HTTP_* mapping, scheme/SCRIPT_NAME/PATH_INFO/REMOTE_ADDR only from trusted peers, PROXY address on "
             "every request, refusals without application call).",
     "note": "reference model written from the documented settings semantics; header_map=dangerous only checked for HTTP_* mapping"},
    {"id": "C19", "engine": "W",
     "technique": "property-based testing (Hypothesis): generated hostile/conforming requests x application programs x log formats; records from the real access logger checked against the wire",
     "text": "Requests with hostile targets / header values / Basic credentials x application programs (all body modes, failures) x access_log_format "
             "atoms x 4 worker classes x send faults: records captured from gunicorn.access are counted against application calls, their status and "
             "byte atoms compared with what an independent response reader decoded from the client's bytes, and searched for LF.",
     "note": "records captured by a logging.Handler on the real Logger (not via a file); CR is tolerated; byte-count verdict only for well-behaved, non-failing calls"},
    {"id": "C05", "engine": "W",
     "technique": "property-based testing + fault injection (Hypothesis, scripted socket faults) and exhaustive truncation of the repository's request fixtures; wire-grammar and reference-reader oracles",
     "text": "Random bytes, obfuscated/mutated/truncated pipelines and every fixture truncated at every offset (thorough; 1-in-8 in quick) x read "
             "segmentation x recv/send faults x 4 worker classes x input-reading modes: nothing escapes handle(), the wire is app-response* "
             "(error page | truncated response)?, error pages are well-formed 4xx/5xx with Connection: close and exact length, application calls "
             "never exceed what an independent RFC 9112 reader accepts, the socket is closed and the same worker serves the next connection.",
     "note": "fake socket (EOF after scripted bytes); faults limited to ECONNRESET/EPIPE/ENOTCONN at recv/send call boundaries"},
    {"id": "C18", "engine": "W+R",
     "technique": "property-based testing (Hypothesis) of the exact counting rule on in-process worker objects with a pinned jitter draw; enumerated real-server load cases",
     "text": "W: max_requests x jitter x pinned jitter draw x 4 worker classes x connection plans: alive must turn false exactly at request "
             "max_requests+draw, that response complete and closing, never with max_requests=0. R: real masters under sequential/concurrent "
             "non-keep-alive load: all responses complete, none refused/reset outside the listed known findings, per-pid bound, pids rotate.",
     "note": "jitter pinned by replacing gunicorn.workers.base.randint in the harness; R part bounded by wall-clock slack (inconclusive, never violation, on budget overrun)"},
    {"id": "C16", "engine": "G",
     "technique": "exhaustive enumeration (settings x source subsets x ordered value pairs x invalid values) plus Hypothesis-drawn multi-setting mixes against a priority-fold reference",
     "text": "The real WSGIApplication configuration load runs in-process under a controlled argv, GUNICORN_CMD_ARGS, default config file and framework "
             "dict: for every setting, every subset of the sources able to express it and every ordered pair of family values (incl. falsy values and "
             "append options) the effective value must be the most authoritative mention in normal form, every other setting must keep its default, "
             "and every invalid value (alone or below a valid mention) must end in SystemExit != 0.",
     "note": "value families are chosen per validator by the harness (2-4 values each): exhaustive over these families, not over all values; --paste not exercisable (paste.deploy missing)"},
    {"id": "C17", "engine": "F",
     "technique": "model-based stateful property testing (Hypothesis operation histories against a path->content model) + exhaustive crash-point injection at every proxied system call",
     "text": "Histories of create/validate/rename/unlink/foreign-overwrite/owner-death by several instances on two paths run against the real Pidfile "
             "class (scratch directory, proxied os/tempfile with fake pids) and are compared with a dict model after every step; every system call of "
             "create and rename (incl. the builtin open/write/close) is crashed before/after/half-way in 6 starting states and the path must be absent, complete-old or complete-new.",
     "note": "fake pids with model-driven kill(pid,0); intra-operation races between two masters not injected; crash = process vanishing at a syscall boundary"},
    {"id": "C03", "engine": "K",
     "technique": "schedule-driven property testing (Hypothesis event histories + schedule vectors) of the real Arbiter.run() on a simulated kernel, against a reference pool model",
     "text": "gunicorn.arbiter's os/time/select/signal/sock/random are replaced by a simulated kernel (process table, zombies, virtual clock); generated "
             "histories of worker deaths (any status/signal, also inside fork()), TTIN/TTOU bursts and HUPs, with a schedule vector deciding at which fake "
             "system call each death (and its SIGCHLD handler) lands; at quiescence live == tracked == model target, no zombies, surplus TERMs oldest-first, "
             "boot errors (3/4) end run() with that status.",
     "note": "signal handlers run at fake-syscall boundaries only; worker processes are simulated (the real worker classes are not run here)"},
    {"id": "C11", "engine": "K+H+T+R",
     "technique": "schedule-driven property testing (Hypothesis) of the real timeout scan in virtual time on a simulated kernel, two-sided oracle; enumerated real-process hang/healthy cases",
     "text": "K: timeouts x pool sizes x heartbeat lags drawn within the wait bound the arbiter really passes x hang events (stops heart-beating, ignores "
             "SIGABRT) x schedules: hung workers must get ABRT within timeout+2 s of their last heartbeat, KILL within 2 s more, be reaped and replaced; "
             "healthy workers must never get ABRT/KILL from the scan. H: the real WorkerTmp heartbeat file and murder_workers() on a virtual clock (the file "
             "records the latest notify(); no signal while it is at most timeout old). T: heartbeat period of the idle gthread loop with parked "
             "keep-alive connections / a full connection table. R: real servers (all worker classes) with hung/stopped/ABRT-ignoring and busy-but-healthy workers.",
     "note": "virtual time; simulated worker processes in K; wall-clock slack in R (budget overrun = inconclusive)"},
    {"id": "C13", "engine": "T",
     "technique": "schedule-driven stateful property testing (Hypothesis event schedules) of the real ThreadWorker main loop on scripted poller/sockets/executor with virtual time; connection-set model invariants at every yield point",
     "text": "threads x worker_connections x keepalive x schedules of connects, full/partial/pipelined/close requests, handler completions, clock steps, "
             "disconnects and stop, one event per yield point (poller.select / futures.wait) of the real ThreadWorker.run(): open <= max, nr_conns == open, "
             "no close while a handler is pending, keep-alive expiry at the first scan after the deadline and never before, ready connections "
             "dispatched within 3 iterations when a thread is free, everything closed and nr_conns == 0 when clients are gone.",
     "note": "handlers run atomically at yield points; bytecode-level races between pool threads and the loop are not simulated; three open findings are excluded by signature"},
    {"id": "C04", "engine": "R+K",
     "technique": "enumerated fault/phase matrix with seeded timing jitter on real master+worker processes (exhaustive matrix in thorough, seeded slice in quick); independent response reader, /proc and file-system oracles; plus schedule-driven property testing (Hypothesis) of the real Arbiter.run() being stopped on the simulated kernel",
     "text": "Every cell worker class x connection phase at signal time x application behaviour x signal x bind starts a real gunicorn from the working "
             "tree, brings one client connection into the phase, sends the signal and checks: complete response for requests a worker had started "
             "reading (TERM, application finishing in time), master exit status 0 in time, no surviving process in the master's session, listener "
             "closed, pid file and unix socket file removed. K: histories of worker deaths / workers in transit / hung workers / TTIN / TTOU / HUP followed "
             "by TERM, QUIT or INT to the master x schedule vectors: run() ends in sys.exit(0) in time, every live worker was signalled, none survives.",
     "note": "wall-clock bounds with 4 s slack; the harness owns the phase, not the instruction at which the signal lands; inconclusive cells (server not ready) are counted, not alarmed"},
    {"id": "C10", "engine": "R",
     "technique": "enumerated reload histories with seeded timing on real processes under continuous client load (exhaustive cell matrix in thorough, seeded slice in quick); response-reader and /proc oracles",
     "text": "Worker class x bind spelling (IPv4, unix, host name, IPv6) x 12 histories of TTIN/TTOU + 1-3 HUPs (two with HUP bursts during slow boots; plus two-listener cells) with the config file rewritten before each HUP (workers, raw_env marker), "
             "under a tight loop of short requests on fresh connections and a long gated request in flight across the first HUP: no refused "
             "connect, no cut response, sync answers every accepted connection, the long request is answered by the pid that started it, and after "
             "quiescence the master's children are exactly the new number, all newer than the last HUP, all reporting the new marker.",
     "note": "timing is seeded but real; empty responses on non-sync classes are tolerated per the statement; budget overruns are inconclusive"},
    {"id": "C14", "engine": "R",
     "technique": "enumerated upgrade histories with seeded jitter on real masters under a connect-loop client; pid-file, /proc and socket oracles",
     "text": "Fourteen orderings of USR2 / TERM / QUIT / INT / WINCH / HUP on old and new master (incl. second USR2 while pending, a second upgrade of the "
             "promoted master, rollback then upgrade, stopping the old master before the new one has started, daemon-mode rollbacks, systemd socket "
             "activation) x tcp/unix (IPv6 and host-name binds for three of them) x worker class: no refused connect, pid-file / '.2' naming and promotion within 3 s, the survivor keeps "
             "serving and the unix socket file stays, no third master, the rollback restores the single master with its worker count.",
     "note": "real time with slack; masters are identified through pid files and /proc"},
    {"id": "C20", "engine": "R",
     "technique": "enumerated configuration x history matrix on real root-started masters (exhaustive in thorough, seeded slice in quick); /proc identity oracle for every worker generation",
     "text": "User/group spellings x initgroups x worker class x bind x generation history (worker killed, HUP, USR2, HUP moving the unix bind, HUP into a config that first sets user/group): every worker "
             "of every generation must show 4 x the configured uid and gid in /proc/<pid>/status (and getgrouplist() with initgroups), the application must "
             "report the same ids, the master stays 0/0, workers survive 2 x timeout, a unix socket is owned uid:gid.",
     "note": "needs root; the image has no account with supplementary groups, so the Groups oracle is [gid]; servers that refuse to start are counted, not alarmed"},
]
