ENGINES = [
    {"name": "P", "path": "vlib/penv.py", "serves_properties": ["C01", "C06", "C07", "C12"],
     "kind_free_text": "real RequestParser over segmented in-memory sources; Hypothesis generators + independent RFC 9112 reference reader"},
]
NOT_APPLICABLE = {}
CHECKS = [
    {"id": "C01", "engine": "P",
     "technique": "property-based differential testing (Hypothesis) against an independent strict RFC 9112 framing reader",
     "text": "Generated-input search: obfuscated pipelined request streams x safe configs are parsed by the real RequestParser and "
             "compared with an independent strict reader (body bytes, end offset, listed must-reject classes, no request after a "
             "framing error, independence from how much body the app read). Exploration only: absence is not established.",
     "note": "trusts vlib/ref_request.py as the reading of RFC 9112; documented-unsafe parser modes excluded; one-directional (gunicorn may reject more)"},
    {"id": "C06", "engine": "P",
     "technique": "property-based metamorphic testing (Hypothesis + exhaustive single-cut enumeration): same stream under different read segmentations",
     "text": "Generated streams (obfuscated, conforming, limit-sized, long chunk lines) x configs are fed block-wise and under every single cut "
             "(exhaustive <=400 bytes), byte-wise, line-wise, around every CR/LF, drawn multi-cuts and 2-cuts (thorough: all 2-cuts for short streams); "
             "every observation field and the terminal outcome class must be identical. Exploration; exhaustive only for the single-cut sub-domain of each stream.",
     "note": "reads <= 8192 bytes; exception messages not compared, classes are; end offset not compared after a body error"},
    {"id": "C07", "engine": "P",
     "technique": "model-based property testing (Hypothesis): call programs over wsgi.input compared call-by-call with io.BytesIO",
     "text": "Generated bodies x framings x chunk layouts x read/readline/readlines/iteration programs x segmentations x drain-or-not, followed by a "
             "pipelined request: each call result equals io.BytesIO's, EOF is sticky, and the next request parses with equal fields and body.",
     "note": "readlines(hint) may ignore the hint; only accepted (conforming) requests are in scope"},
    {"id": "C12", "engine": "P",
     "technique": "property-based boundary testing (Hypothesis) + exhaustive enumeration of endless metered sources",
     "text": "Limit configs x requests placed d in -4..+4 of each limit (incl. underscore-named fields, segmentations): over => never yielded, within => no "
             "Limit* rejection; and an enumerated family of endless sources (request line, header line/block, chunk-size line, chunk extension, trailer "
             "line/block, PROXY line) x configs x read sizes must be rejected before B(cfg) bytes are consumed.",
     "note": "2-byte band at each size boundary (size with or without CRLF); 0=unlimited exempts the item it unlimits; B(cfg)=2*(line+max_buffer_headers)+64KiB"},
]
