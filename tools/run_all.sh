#!/bin/sh
# run every registered check in one tier, print one summary line per check
tier=${1:-quick}
cd "$(dirname "$0")/.."
for i in 01 02 03 04 05 06 07 08 09 10 11 12 13 14 15 16 17 18 19 20; do
  start=$(date +%s)
  out=$(./check C$i --tier $tier 2>&1); rc=$?
  end=$(date +%s)
  echo "C$i rc=$rc $((end-start))s :: $(echo "$out" | grep -c '^VIOLATION') violation(s), $(echo "$out" | grep -c '^KNOWN-FINDING') known :: $(echo "$out" | grep "^C$i " | tail -1)"
  echo "$out" | grep -A3 '^VIOLATION' | cut -c1-600
done
