#!/venv/bin/python
"""Confirm a seeded change independently and import it into /verif/seeded/<name>/.

usage: tools/confirm_seed.py <seed_dir with patch.diff demo.py meta.json> <name>
Steps (scratch worktree of /repo HEAD under /tmp, removed afterwards):
  1. demo.py on the clean tree must exit 0
  2. apply patch; the repository test-suite must pass
  3. demo.py must exit non-zero
"""
import json
import os
import shutil
import subprocess
import sys
import tempfile

VERIF = os.path.dirname(os.path.dirname(os.path.abspath(__file__)))


def run(cmd, cwd, env=None, timeout=900):
    r = subprocess.run(cmd, cwd=cwd, env=env, capture_output=True, text=True, timeout=timeout)
    return r.returncode, (r.stdout + r.stderr)[-1500:]


def main():
    src, name = sys.argv[1], sys.argv[2]
    wt = tempfile.mkdtemp(prefix="seedwt_", dir="/tmp")
    os.rmdir(wt)
    subprocess.check_call(["git", "-C", "/repo", "worktree", "add", "-q", "--detach", wt, "HEAD"])
    ran = []
    ok = True
    try:
        env = dict(os.environ, PYTHONPATH=wt)
        env.pop("VERIF_REPO", None)
        os.makedirs(os.path.join(wt, "_seed", "x"))        # same relative layout the demo was written in
        shutil.copy(os.path.join(src, "demo.py"), os.path.join(wt, "_seed", "x", "demo.py"))
        rc, out = run(["/venv/bin/python", "_seed/x/demo.py"], wt, env, 300)
        ran.append({"cmd": "demo.py on clean tree (/repo HEAD %s)" % subprocess.check_output(
            ["git", "-C", "/repo", "rev-parse", "--short", "HEAD"], text=True).strip(), "exit": rc})
        ok &= (rc == 0)
        r = subprocess.run(["git", "-C", wt, "apply", "--3way", os.path.abspath(os.path.join(src, "patch.diff"))],
                           capture_output=True, text=True)
        if r.returncode != 0:
            print("PATCH FAILED", r.stderr)
            ran.append({"cmd": "git apply --3way", "exit": r.returncode, "out": r.stderr[-500:]})
            ok = False
        else:
            rc, out = run(["/venv/bin/python", "-m", "pytest", "-q", "-p", "no:cacheprovider", "--timeout=900", "-x", "tests"], wt, env)
            last = [l for l in out.splitlines() if "passed" in l or "failed" in l][-1:]
            ran.append({"cmd": "pytest tests (patched)", "exit": rc, "summary": last})
            ok &= (rc == 0)
            rc, out = run(["/venv/bin/python", "_seed/x/demo.py"], wt, env, 300)
            ran.append({"cmd": "demo.py on patched tree", "exit": rc, "tail": out[-400:]})
            ok &= (rc != 0)
    finally:
        subprocess.call(["git", "-C", "/repo", "worktree", "remove", "--force", wt])
    print(name, "CONFIRMED" if ok else "NOT-CONFIRMED", json.dumps(ran)[:600])
    if ok:
        dst = os.path.join(VERIF, "seeded", name)
        os.makedirs(dst, exist_ok=True)
        for f in ("patch.diff", "demo.py"):
            shutil.copy(os.path.join(src, f), os.path.join(dst, f))
        meta = json.load(open(os.path.join(src, "meta.json")))
        meta["confirmed_by_me"] = ran
        meta.setdefault("caught_by", [])
        json.dump(meta, open(os.path.join(dst, "meta.json"), "w"), indent=1)
    return 0 if ok else 1


if __name__ == "__main__":
    sys.exit(main())
