#!/venv/bin/python
"""Run every seeded change under /verif/seeded against its property's check (quick tier) in a scratch worktree,
record the outcome in seeded/<name>/meta.json (caught_by) and write seeded/RESULTS.md."""
import json
import os
import re
import subprocess
import sys

VERIF = os.path.dirname(os.path.dirname(os.path.abspath(__file__)))
EXTRA = {"C18-a": ["C13"], "C01-b": ["C07"], "C07-a": ["C01"], "C12-b": ["C05"], "C05-a": ["C01"], "C04-b": ["C17"], "C19-b": ["C05"],
         # round 5: the change breaks its own property through machinery that belongs to a sibling property's check
         "C01-i": ["C07"],      # body bytes lost through a readline()/read() call pattern: the input-API model of C07
         "C10-j": ["C03"],      # ESRCH for an already reaped worker during reload: a SIGCHLD interleaving only engine K (C03) owns
         "C05-g": ["C13"], "C06-j": ["C13"],
         "C10-l": ["C03"],
         "C07-n": ["C06", "C13"],
         "C12-m": ["C06"],
         "C10-p": ["C13", "C18"],
         "C07-v": ["C01"]}     # a failed read taken for the end of the stream: worker-level failing reads live in C01's slice   # gthread cancels jobs queued behind busy threads when it stops: engine T's "queued request cancelled" / C18's "dispatched request dropped"     # at-limit request line refused only for a read boundary between CR and LF: inside C12's 2-byte band, a segmentation matter     # the gthread blocking-mode regression again: a worker-level segmentation matter (C06 real slice, C13 engine T)      # surplus workers picked by pid instead of age: only visible when the pid counter wraps (engine K)


_baseline = {}


def baseline(check):
    """violation signatures the check reports on the clean tree (should be none): a mutant only counts as caught for new ones"""
    if check not in _baseline:
        r = subprocess.run([os.path.join(VERIF, "check"), check] + (["--seed", os.environ["MATRIX_SEED"]] if os.environ.get("MATRIX_SEED") else []),
                           env=dict(os.environ, VERIF_NO_EVIDENCE="1"), capture_output=True, text=True)
        sigs = set(re.findall(r"^  clause=\S+ signature=(\S+)", r.stdout, re.M))
        if sigs:
            print("WARNING: %s is red on the clean tree: %s" % (check, sorted(sigs)), flush=True)
        _baseline[check] = sigs
    return _baseline[check]


def main():
    only = sys.argv[1:]
    rows = []
    for name in sorted(os.listdir(os.path.join(VERIF, "seeded"))):
        d = os.path.join(VERIF, "seeded", name)
        if not os.path.isdir(d) or (only and name not in only):
            continue
        prop = name.split("-")[0]
        checks = [prop] + EXTRA.get(name, [])
        seed = os.environ.get("MATRIX_SEED")
        r = subprocess.run([os.path.join(VERIF, "tools", "mutate.py"), os.path.join(d, "patch.diff")] + checks +
                           (["--", "--seed", seed] if seed else []), capture_output=True, text=True)
        verdicts = dict(re.findall(r"^(C\d+) (CAUGHT|MISSED|ERROR\S*)", r.stdout, re.M))
        sigs = re.findall(r"signature=(\S+)", r.stdout)
        for c in checks:
            if verdicts.get(c) == "CAUGHT" and baseline(c) and not (set(sigs) - baseline(c)):
                verdicts[c] = "MISSED"          # only signatures that the clean tree shows as well
        sigs = [x for x in sigs if not any(x in baseline(c) for c in checks if c in _baseline)]
        if os.environ.get("MATRIX_SEED"):
            print(name, verdicts, flush=True)
            continue            # exploratory run under another seed: do not touch the recorded verdicts
        meta = json.load(open(os.path.join(d, "meta.json")))
        meta["caught_by"] = sorted(c for c, v in verdicts.items() if v == "CAUGHT")
        meta["missed_by"] = sorted(c for c, v in verdicts.items() if v != "CAUGHT")
        meta["signatures"] = sorted(set(s for s in sigs))[:6]
        meta["ran_checks"] = "tools/mutate.py seeded/%s/patch.diff %s (quick tier, VERIF_SEED=0, scratch worktree of /repo HEAD)" % (name, " ".join(checks))
        json.dump(meta, open(os.path.join(d, "meta.json"), "w"), indent=1)
        rows.append((name, meta.get("summary", "")[:110].replace("\n", " "), verdicts, meta["signatures"][:2]))
        print(name, verdicts, flush=True)
    if not only and not os.environ.get("MATRIX_SEED"):
        with open(os.path.join(VERIF, "seeded", "RESULTS.md"), "w") as f:
            f.write("# Seeded changes vs. checks (quick tier)\n\n| change | what it does | verdicts | first signatures |\n|---|---|---|---|\n")
            for name, summ, v, sg in rows:
                f.write("| %s | %s | %s | %s |\n" % (name, summ.replace("|", "/"), ", ".join("%s %s" % kv for kv in sorted(v.items())),
                                                   "<br>".join(s.replace("|", "/") for s in sg)))
    return 0


if __name__ == "__main__":
    sys.exit(main())
