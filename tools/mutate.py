#!/venv/bin/python
"""Run checks against a patched scratch worktree of /repo (never touches /repo itself).

usage: tools/mutate.py <patch.diff | ->  CNN [CNN ...] [-- extra check args]
       a python snippet can be given instead of a patch with  --sed "file@@old@@new"
Prints, per check, CAUGHT (exit 1 + VIOLATION), MISSED (exit 0) or ERROR (other).
"""
import os
import subprocess
import sys
import tempfile

VERIF = os.path.dirname(os.path.dirname(os.path.abspath(__file__)))


def main():
    args = sys.argv[1:]
    extra = []
    if "--" in args:
        i = args.index("--")
        args, extra = args[:i], args[i + 1:]
    seds = []
    while "--sed" in args:
        i = args.index("--sed")
        seds.append(args[i + 1])
        del args[i:i + 2]
    reverts = []
    while "--revert" in args:
        i = args.index("--revert")
        reverts.append(args[i + 1])
        del args[i:i + 2]
    patch = None
    if args and not args[0].upper().startswith("C") or (args and os.path.exists(args[0])):
        patch = args.pop(0)
    checks = [a.upper() for a in args]
    wt = tempfile.mkdtemp(prefix="mutwt_", dir="/tmp")
    os.rmdir(wt)
    subprocess.check_call(["git", "-C", "/repo", "worktree", "add", "-q", "--detach", wt, "HEAD"])
    rc_all = 0
    try:
        if patch and patch != "-":
            r = subprocess.run(["git", "-C", wt, "apply", "--3way", os.path.abspath(patch)],
                               capture_output=True, text=True)
            if r.returncode != 0:
                r2 = subprocess.run(["patch", "-p1", "-d", wt, "-i", os.path.abspath(patch)],
                                    capture_output=True, text=True)
                if r2.returncode != 0:
                    print("PATCH-FAILED", r.stderr, r2.stdout, r2.stderr)
                    return 3
        for c in reverts:
            diff = subprocess.run(["git", "-C", "/repo", "show", c], capture_output=True, text=True).stdout
            r = subprocess.run(["git", "-C", wt, "apply", "-R", "--3way", "-"], input=diff, capture_output=True, text=True)
            if r.returncode != 0:
                print("REVERT-FAILED", c, r.stderr)
                return 3
        for sed in seds:
            f, old, new = sed.split("@@")
            p = os.path.join(wt, f)
            s = open(p).read()
            if s.count(old) < 1:
                print("SED-NOMATCH", f, old)
                return 3
            open(p, "w").write(s.replace(old, new))
        d = subprocess.run(["git", "-C", wt, "diff", "--stat"], capture_output=True, text=True).stdout
        print(d.strip())
        for c in checks:
            env = dict(os.environ, VERIF_REPO=wt)
            r = subprocess.run([os.path.join(VERIF, "check"), c] + extra, env=env, capture_output=True, text=True)
            vio = [l for l in r.stdout.splitlines() if l.startswith("VIOLATION")]
            verdict = "CAUGHT" if (r.returncode == 1 and vio) else "MISSED" if r.returncode == 0 else "ERROR(rc=%d)" % r.returncode
            print("%s %s" % (c, verdict))
            tail = [l for l in r.stdout.splitlines() if l.startswith(("VIOLATION", "  clause", "  observed", "KNOWN", c))]
            for l in tail[:8]:
                print("   ", l[:400])
            if verdict.startswith("ERROR"):
                print(r.stdout[-2000:], r.stderr[-2000:])
            if verdict != "CAUGHT":
                rc_all = 1
    finally:
        subprocess.call(["git", "-C", "/repo", "worktree", "remove", "--force", wt])
    return rc_all


if __name__ == "__main__":
    sys.exit(main())
