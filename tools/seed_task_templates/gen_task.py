import json, sys
props = {json.loads(l)['id']: json.loads(l) for l in open('/verif/properties.jsonl')}
T = """# Task: seed a realistic property-breaking change into gunicorn (mutation for testing a verifier)

You are working in a scratch git worktree of the gunicorn repository at `{wt}` (pure Python; run things with
`/venv/bin/python`, always with `PYTHONPATH={wt}` and from cwd `{wt}`, and confirm once that
`import gunicorn; gunicorn.__file__` points inside `{wt}`). Work ONLY inside `{wt}`. Never read, write or
run anything in `/repo` or `/verif` (they are off limits), and do not look for other people's checks anywhere.
There is no network.

## The property (semantic property of gunicorn that should hold on the unmodified tree)

**{id} — {title}**

Statement: {statement}

Quantifier: {qtext}

Code the property is anchored in: {files}

## What to produce

Produce TWO independent changes ("a" and "b", with different mechanisms / different code sites) to gunicorn's
*source* (files under `gunicorn/`, not tests) such that for each change, applied alone to the clean tree:

1. the code still imports/compiles, and the existing test-suite still passes completely:
   `cd {wt} && PYTHONPATH={wt} /venv/bin/python -m pytest -q -p no:cacheprovider --timeout=900 tests` (260 tests pass on the clean tree);
2. the property above is genuinely BROKEN by the change (the behaviour the statement promises no longer holds for some
   input / schedule / history / configuration inside the quantifier);
3. the breakage is realistic — the kind of regression a plausible refactor, "optimisation", "simplification", or
   well-meant bug-fix could introduce — and it needs something SPECIFIC to manifest: a particular input shape, a
   particular interleaving, a fault at a particular point, a multi-step sequence of operations, an unusual but legal
   configuration, or two cooperating sites that each look fine alone. NOT something every ordinary request/use would
   expose at once (e.g. not "every request now fails").
4. a small demonstration program `demo.py` (plain Python script, standard library + gunicorn only, no pytest needed;
   run as `cd {wt} && PYTHONPATH={wt} /venv/bin/python <path>/demo.py`) exits 0 on the clean tree and exits non-zero
   (printing what went wrong) with the change applied. It must exercise real gunicorn code (parser / worker handle() on a socketpair
   or fake socket / arbiter / real server process, as appropriate), finish in well under 60 s, and clean up any processes/files it creates.

Think of what a careful reviewer would wave through: a refactor that moves a check a few lines, a helper that is almost equivalent, an
optimisation that caches a value a little too long, an error path that now swallows one more exception type, a default that changes
only for one worker class or one listener type, a condition that differs only for a boundary value.
Aim for changes that are HARD to notice: prefer ones that only show under a multi-step history, a specific interleaving or fault point,
a boundary value (sizes around 1024 / 8192 bytes, limits, counters), an unusual-but-legal configuration value, or the cooperation of two code
sites - rather than a single obviously wrong condition. The two changes must touch different functions.
To spread the changes over different kinds of mistakes, take these two angles if they fit this property at all (if one does not fit,
take the nearest thing that does, and say so in meta.json):
- change a: {angle_a}
- change b: {angle_b}
Keep each change small (a few lines, at most ~30). Do not touch tests. Do not add new dependencies.
It is fine (even good) if a change is subtle. Do not make changes whose only effect is on documented-unsafe opt-in modes.

## Deliverables (exact layout)

Create (untracked) directory `{wt}/_seed/` with:

- `_seed/a/patch.diff` — output of `git diff` for change a against the clean tree (must apply with `git apply` to a clean checkout)
- `_seed/a/demo.py`
- `_seed/a/meta.json` — {{"property": "{id}", "summary": "...what was changed...", "needs": "...what specific input/schedule/history/config is needed for it to manifest...", "ran": ["commands you ran and their outcome"]}}
- the same three files under `_seed/b/`.

Procedure for each: make the change, run the test-suite (must pass), run demo.py (must fail), save `git diff > _seed/x/patch.diff`,
then `git checkout -- .` to return to the clean tree and run demo.py again (must pass). At the very end the worktree
must be clean except for `_seed/` (`git status --short` shows only `?? _seed/`). Kill any stray gunicorn processes you started.

Finish with a short report: for a and b, one paragraph each (what changed, why tests still pass, what is needed to trigger it).
"""
ANGLES = [
 "confined to ONE worker class other than sync (gthread, gevent or eventlet) or to one listener type (unix vs TCP vs IPv6), the others staying correct",
 "manifests only under a non-default but legal configuration value (a setting most deployments leave alone), the default configuration staying correct",
 "sits in an error / exception path: what happens when a system call or socket operation fails or is interrupted (EAGAIN, EPIPE, ECONNRESET, ENOENT, EINTR, ENOTCONN, a timeout) or when the application raises at a particular moment",
 "needs a history of at least three steps (e.g. several requests on one connection, several signals, a sequence of API calls) before anything goes wrong; every shorter history stays correct",
 "a Python-level subtlety: falsy zero/empty value, `is` vs `==`, a mutable default or class attribute shared between instances, bytes vs str, lenient integer parsing (int(' 1_0 ')), regex `$` / match vs fullmatch, an off-by-one in a slice, dict/set ordering, integer vs float division, an exception class that is a subclass of another",
 "a boundary value: the behaviour is wrong only exactly at (or one past) a limit, a buffer size (1024 / 8192 bytes), a counter wrap, a timeout edge, an empty collection, the first or the last element",
 "state that survives longer than it should (or is reset too early): something cached, memoised or carried over between requests, connections, worker generations or reloads",
 "two cooperating edits at different sites that each look harmless alone (the demo must fail only with both)",
]
for pid in sys.argv[1:]:
    p = props[pid]
    n = int(pid[1:])
    angle_a = ANGLES[(n * 5 + 3) % len(ANGLES)]
    angle_b = ANGLES[(n * 5 + 6) % len(ANGLES)]
    wt = f"/tmp/seed10_wt/{pid}"
    open(f"{wt}/_TASK.md", "w").write(T.format(wt=wt, id=pid, title=p['title'], statement=p['statement'],
        qtext=p['quantifier']['text'], files=", ".join(p['anchors']['files']), angle_a=angle_a, angle_b=angle_b))
    print(wt)
