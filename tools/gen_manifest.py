#!/usr/bin/env python3
"""Regenerate MANIFEST.json from tools/manifest_data.py (keeps it schema-valid at all times)."""
import json
import os
import sys

HERE = os.path.dirname(os.path.abspath(__file__))
sys.path.insert(0, HERE)
from manifest_data import CHECKS, NOT_APPLICABLE, ENGINES  # noqa

ALL = ["C%02d" % i for i in range(1, 21)]
m = {
    "version": 1,
    "setup_cmd": "./setup.sh",
    "hooks": {
        "guard": "GUNICORN_VERIF",
        "enable": "no source hooks exist: all instrumentation is harness-side (module-global proxies, fake sockets, "
                  "documented server hooks); checks import gunicorn from /repo's working tree (VERIF_REPO overrides)",
        "baseline_off_cmd": "cd /repo && env -u GUNICORN_VERIF /venv/bin/python -m pytest -ra -q -p no:cacheprovider --timeout=900 --continue-on-collection-errors tests",
        "source_commits": [],
        "add_only": True,
    },
    "engines": ENGINES,
    "checks": [],
    "notes": "See DESIGN.md. Exit codes: 0 held, 1 VIOLATION, 2 harness error/inconclusive. "
             "known_findings.json lists open findings (suppressed by exact signature) and fixed ones (suppress nothing).",
    "not_applicable": [],
}
claimed = set()
for c in CHECKS:
    pid = c["id"]
    claimed.add(pid)
    m["checks"].append({
        "property_id": pid,
        "quick_cmd": "./check %s --tier quick" % pid,
        "thorough_cmd": "./check %s --tier thorough" % pid,
        "evidence_file": "/verif/evidence/%s.json" % pid,
        "replay_cmd_template": "./check %s --replay {path}" % pid,
        "engine": c["engine"],
        "level_claimed": {"category": "exploration", "text": c["text"], "design_ref": "DESIGN.md §3 " + pid},
        "level_note": c["note"],
        "technique": c["technique"],
    })
for pid in ALL:
    if pid not in claimed:
        m["not_applicable"].append({"property_id": pid, "reason": NOT_APPLICABLE.get(
            pid, "check not built yet in this revision (planned in DESIGN.md §3 %s); not claimed until it exists" % pid)})
json.dump(m, open(os.path.join(os.path.dirname(HERE), "MANIFEST.json"), "w"), indent=1)
print("claimed:", sorted(claimed))
