#!/venv/bin/python
"""Coverage-guided fuzzing (Atheris/libFuzzer) of the request parser with the C01 differential oracle and the C06
segmentation oracle inside the target.  usage: fuzz_parser.py <workdir> <seed> <seconds> <corpus: empty|fixtures>
Writes <workdir>/result.json; a violation with an unknown signature aborts the campaign (libFuzzer saves the input)."""
import json
import os
import sys

HERE = os.path.dirname(os.path.dirname(os.path.abspath(__file__)))
sys.path.insert(0, HERE)
sys.path.append(os.path.join(HERE, ".deps"))
workdir, seed, seconds, corpus_kind = sys.argv[1], int(sys.argv[2]), int(sys.argv[3]), sys.argv[4]
import atheris  # noqa

from vlib import common  # noqa
common.setup_repo()
with atheris.instrument_imports(include=["gunicorn.http", "gunicorn.http.message", "gunicorn.http.body", "gunicorn.http.parser",
                                         "gunicorn.http.unreader"]):
    import gunicorn.http  # noqa
    import gunicorn.http.message  # noqa
    import gunicorn.http.body  # noqa
from checks import c01, c06  # noqa
from vlib import penv, fixtures  # noqa

KNOWN = set(common.open_signatures("C01")) | set(common.open_signatures("C06"))
stats = {"execs": 0, "yielded": 0, "rejected": 0, "violation": None}


def target(data):
    if len(data) < 3:
        return
    stats["execs"] += 1
    if stats["execs"] % 2000 == 0:
        with open(os.path.join(workdir, "result.json"), "w") as f:
            json.dump(stats, f)
    case = {"stream": data[2:].decode("latin-1"), "cfg": data[0] % len(c01.CFGS), "cut": data[1] * 2, "consume": data[1] % 8}
    out = c01.run_case(case)
    if any(c.startswith("yielded:") and c != "yielded:0" for c in out.classes):
        stats["yielded"] += 1
    else:
        stats["rejected"] += 1
    bad = [v for v in out.violations if v.signature not in KNOWN]
    prop = "C01"
    if not bad:
        # segmentation independence on two cuts taken from the input itself
        stream = data[2:]
        cfg = c01.cfg_for(case["cfg"])
        base = c06.norm(penv.observe(stream, c06.blocks(len(stream)), cfg))
        for cuts in ([data[1] % (len(stream) + 1)], [data[0] % (len(stream) + 1), (data[0] + data[1]) % (len(stream) + 1)],
                     list(range(1, min(len(stream), 64)))):
            got = c06.norm(penv.observe(stream, c06._cap(cuts, len(stream)), cfg))
            if got != base:
                sig = c06._sig(base, got)
                if sig not in KNOWN:
                    prop = "C06"
                    case = {"stream": case["stream"], "cfg": 0, "multi": [cuts], "pairs": [], "all_pairs": False, "fuzz_cfg": c01.CFGS[case["cfg"]]}
                    bad = [common.Violation("segmentation-independence", sig, observed={"cuts": cuts}, expected="same as block-wise")]
                    break
    if bad:
        stats["violation"] = {"property": prop, "case": case, "violation": bad[0].as_dict()}
        with open(os.path.join(workdir, "result.json"), "w") as f:
            json.dump(stats, f)
        raise RuntimeError("oracle violation: " + bad[0].signature)


corpus = os.path.join(workdir, "corpus")
os.makedirs(corpus, exist_ok=True)
if corpus_kind == "fixtures":
    for i, (name, d) in enumerate(fixtures.load_all()):
        with open(os.path.join(corpus, "fx%03d" % i), "wb") as f:
            f.write(bytes([0, 0]) + d)
import atexit  # noqa


def dump():
    if not os.path.exists(os.path.join(workdir, "result.json")) or stats["violation"] is None:
        with open(os.path.join(workdir, "result.json"), "w") as f:
            json.dump(stats, f)


argv = [sys.argv[0], corpus, "-max_total_time=%d" % seconds, "-seed=%d" % (seed or 1), "-max_len=600", "-print_final_stats=1",
        "-artifact_prefix=%s/" % workdir, "-timeout=20", "-rss_limit_mb=4096", "-dict=%s" % os.path.join(HERE, "tools", "http.dict")]
atheris.Setup(argv, target)
try:
    atheris.Fuzz()
finally:
    dump()
