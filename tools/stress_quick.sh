#!/bin/sh
# repeat quick checks under several seeds; print only runs that did not end with "0 violation(s)" and rc=0
cd "$(dirname "$0")/.."
seeds=${SEEDS:-"21 22 23"}
checks=${CHECKS:-"C01 C02 C03 C04 C05 C06 C07 C08 C09 C10 C11 C12 C13 C14 C15 C16 C17 C18 C19 C20"}
for sd in $seeds; do for c in $checks; do
  out=$(VERIF_NO_EVIDENCE=1 ./check $c --seed $sd 2>&1); rc=$?
  if [ $rc -ne 0 ]; then echo "== $c seed=$sd rc=$rc"; echo "$out" | grep -A3 "^VIOLATION\|HARNESS\|INCONCLUSIVE" | cut -c1-700 | head -20; fi
done; done
echo stress-done
