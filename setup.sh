#!/bin/sh
# Offline setup: make sure hypothesis is importable by /venv/bin/python (wheelhouse only), optional atheris into .deps
set -e
cd "$(dirname "$0")"
export PIP_NO_INDEX=1
if ! /venv/bin/python -c 'import hypothesis' 2>/dev/null; then
    /venv/bin/pip install --no-index --find-links /opt/veriftools/wheels hypothesis >/dev/null 2>&1 || \
    /venv/bin/pip install --no-index --find-links /opt/veriftools/wheels --target .deps hypothesis
fi
mkdir -p .deps out evidence
if ! PYTHONPATH=.deps /venv/bin/python -c 'import atheris' 2>/dev/null; then
    /venv/bin/pip install --no-index --find-links /opt/veriftools/wheels --target .deps atheris >/dev/null 2>&1 || \
        echo "note: atheris not installable for /venv python; fuzz tier falls back to Hypothesis only"
fi
/venv/bin/python -c 'import hypothesis; print("hypothesis", hypothesis.__version__)'
exit 0
