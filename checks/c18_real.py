"""C18, engine R: real servers recycling workers under sequential and concurrent non-keep-alive load."""
import re
import threading
import time

from vlib.common import Outcome, Violation
from vlib import renv

KINDS = ["sync", "gthread", "gevent", "eventlet"]


def cells(tier):
    out = []
    for kind in KINDS:
        for mr, jit, workers, conc in [(3, 0, 1, 1), (5, 2, 2, 1), (5, 0, 1, 8), (4, 2, 2, 8), (0, 0, 1, 1), (0, 3, 2, 8)]:
            out.append({"engine": "R", "kind": kind, "max_requests": mr, "jitter": jit, "workers": workers, "concurrency": conc})
    if tier == "quick":
        # 16 cells: every class with a sequential recycle, a concurrent recycle, and the two 'unset' configurations
        out = [c for c in out if (c["max_requests"], c["concurrency"]) in ((3, 1), (5, 8), (0, 1), (0, 8))]
    return out


def run_case(case):
    kind, mr, jit, conc = case["kind"], case["max_requests"], case["jitter"], case["concurrency"]
    classes = ["engine:R", "kind:" + kind, "mr:%d" % mr, "conc:%d" % conc]
    srv = renv.Server(kind=kind, workers=case["workers"], bind="tcp", graceful=3, timeout=30, threads=2 if kind == "gthread" else None,
                      extra=["--max-requests", str(mr), "--max-requests-jitter", str(jit)], keepalive=2)
    vio = []

    def V(clause, sig, observed=None, expected=None):
        vio.append(Violation(clause, "C18/" + sig, observed={"detail": observed, "case": case, "log_tail": srv.logtext()[-1200:]},
                             expected=expected))

    try:
        if not srv.wait_ready():
            return Outcome([], False, classes + ["inconclusive:not-ready"], sample={"case": case})
        time.sleep(0.3)
        total = 40 if conc == 1 else 48
        results = []
        lock = threading.Lock()

        def client(n):
            for _ in range(n):
                r, data, err = srv.request("/slow/0.02" if conc > 1 else "/pid", timeout=10)
                pid = None
                if r is not None and r.ok and r.complete and r.status == 200 and not r.errors:
                    m = re.search(rb"pid=(\d+)", r.body)
                    pid = int(m.group(1)) if m else None
                with lock:
                    results.append((pid, err, len(data)))

        ths = [threading.Thread(target=client, args=(total // conc,), daemon=True) for _ in range(conc)]
        for t in ths:
            t.start()
        for t in ths:
            t.join(60)
        lost = [r for r in results if r[0] is None]
        per_pid = {}
        for pid, err, n in results:
            if pid:
                per_pid[pid] = per_pid.get(pid, 0) + 1
        # the readiness probes count too (a handful of /pid requests before the load): allow for them
        probes = 6
        if lost:
            refused = [r for r in lost if r[1] and r[1].startswith("connect:")]
            V("no-request-lost", "request-lost-at-recycle:%s:%s" % (kind, "refused" if refused else ("sequential" if conc == 1 else "concurrent")),
              {"lost": len(lost), "of": len(results), "first": lost[0]}, "every client gets a complete response")
        if mr > 0:
            bound = mr + jit + conc
            over = {p: n for p, n in per_pid.items() if n > bound}
            if over:
                V("recycle-bound", "per-pid-bound-exceeded:%s" % kind, {"per_pid": per_pid, "bound": bound}, "<= max_requests+jitter+concurrency")
            elif len(results) - len(lost) > (mr + jit + probes) * case["workers"] and len(per_pid) < 2:
                V("recycles", "no-recycle-observed:%s" % kind, {"per_pid": per_pid}, "pids change")
        else:
            ws = set(srv.workers())
            if len(per_pid) > case["workers"] or "Autorestarting" in srv.logtext():
                V("never-recycled-when-unset", "worker-recycled-with-max-requests-0:%s" % kind, {"per_pid": per_pid, "jitter": jit},
                  "stable pid set")
        return Outcome(vio, mr > 0 or jit > 0, classes, key="R|%s|%d|%d|%d|%d" % (kind, mr, jit, case["workers"], conc),
                       sample={"case": case, "per_pid": per_pid, "lost": len(lost)})
    finally:
        srv.cleanup()
