"""C02 Responses on the wire are correctly framed; keep-alive only when safe — engine W."""
from hypothesis import strategies as st

from vlib.common import Outcome, Violation
from vlib import gen_app, wenv, ref_response

PROPERTY = "C02"
OSERROR_FAMILY = ("FileNotFoundError", "PermissionError", "TimeoutError", "OSError:EIO", "ConnectionResetError", "socket.timeout")
RULE = ("1-3 pipelined request heads (method incl. HEAD, HTTP/1.0|1.1, Connection variants, Expect, bodies) x one WSGI application "
        "program per request (status, headers with/without Content-Length exact/smaller/zero, body as list/generator/write()/"
        "write()+iterable/file_wrapper over a real file at an offset/file_wrapper over BytesIO, lazy start_response, failure points) "
        "x worker class (sync, gthread, gevent, eventlet) x keepalive {0,2} x sendfile on/off, served by the real handle() on a "
        "scripted socket; oracle: independent strict response reader over the client's bytes (one final response per call, body == "
        "output cut to Content-Length, framing consistent, exactly one terminating chunk, nothing after the last response, "
        "kept-open => self-delimiting and client did not ask close and head announces keep-alive). non-trivial = non-empty body through "
        ">=2 writes/chunks, or file_wrapper, or a second response on the same connection; distinct by case hash")
ASSUMPTIONS = [
    "well-behaved application = PEP 3333 + RFC 9110: programs declaring a Content-Length larger than their output, or producing a body "
    "for HEAD/204/304, are generated, counted (class app_misbehaves) and excluded from the verdict",
    "the client sends everything up-front and then half-closes; the server's reads see EOF after the scripted bytes",
    "error pages written for a failing application are parsed as GET responses (they carry a body even for HEAD)",
]
BUDGET = {"quick": (16, 800), "thorough": (16, 30000)}


def strategy(tier):
    return st.fixed_dictionaries({
        "kind": st.sampled_from(list(wenv.KINDS)),
        "keepalive": st.sampled_from([0, 2, 2]),
        "sendfile": st.sampled_from([None, None, False]),
        "requests": st.lists(gen_app.request_head(), min_size=1, max_size=3),
        "progs": st.lists(gen_app.app_program(), min_size=1, max_size=3),
        "cut": st.integers(0, 300),
    })


def extra_cases(tier, seed, shard, nshards):
    cs = [{"engine": "R", "kind": k, "sendfile": sf} for k in wenv.KINDS for sf in (None, False)]
    for i, c in enumerate(cs):
        if (i + seed) % nshards == shard:
            yield c
    # error-handling middleware: an accepted start_response(..., exc_info) before anything was sent replaces status and headers of the
    # first call - the response is framed by what the second call declared (with or without a Content-Length of its own), on one or
    # two requests of a connection
    n = 0
    for kind in wenv.KINDS:
        for first_cl in (None, 5, 9):
            for second_cl in (None, 9):
                for mode in ("list", "write", "gen"):
                    for version in ("1.1", "1.0"):
                        n += 1
                        if n % nshards != shard:
                            continue
                        prog = {"status": "200 OK", "headers": [["Content-Type", "text/plain"]] + ([["Content-Length", str(first_cl)]] if first_cl is not None else []),
                                "mode": mode, "chunks": ["some", "thing"], "read_input": "none", "lazy_start": False, "closing": False,
                                "restart": {"when": "before_write", "exc_info": True, "status": "500 Internal Server Error", "catch": False,
                                            "headers": [["X-Replaced", "1"]] + ([["Content-Length", str(second_cl)]] if second_cl is not None else [])}}
                        req = {"method": "GET", "target": "/", "version": version, "connection": "keep-alive" if version == "1.0" else None}
                        yield {"kind": kind, "keepalive": 2, "sendfile": None, "requests": [req, dict(req, target="/2")], "progs": [prog], "cut": 0}


EXHAUSTIVE_NOTE = ("engine R slice: for every worker class x sendfile on/off one real server answers the full grid offset {0,1,4096,69990,"
                   "70000} x Content-Length {none, exact, 10} x HTTP {1.1,1.0} x {GET,HEAD} through wsgi.file_wrapper over a real file (kernel "
                   "sendfile path), plus keep-alive pairs on one connection")


def run_real(case):
    """real sockets: the kernel sendfile path that the fake socket only emulates"""
    import itertools
    import os
    from vlib import renv
    kind = case["kind"]
    srv = renv.Server(kind=kind, workers=1, bind="tcp", graceful=2, timeout=30, threads=2 if kind == "gthread" else None, keepalive=5,
                      extra=["--no-sendfile"] if case["sendfile"] is False else [])
    vio = []
    n = 0
    try:
        with open(os.path.join(srv.scratch, "data.bin"), "wb") as f:
            f.write(wenv.FILE_BYTES)
        os.chmod(os.path.join(srv.scratch, "data.bin"), 0o644)
        if not srv.wait_ready():
            return Outcome([], False, ["engine:R", "inconclusive:not-ready"])
        for off, clm, ver, method in itertools.product([0, 1, 4096, 69990, 70000], ["none", "exact", "10"], ["1.1", "1.0"], ["GET", "HEAD"]):
            total = 70000 - off
            cl = None if clm == "none" else (total if clm == "exact" else min(10, total))
            path = "/file/%d/%s" % (off, "none" if cl is None else cl)
            r, data, err = srv.request(path, method=method, version=ver)
            n += 1
            exp = b"" if method == "HEAD" else (wenv.FILE_BYTES[off:] if cl is None else wenv.FILE_BYTES[off:off + cl])
            want_framing = "none" if method == "HEAD" else ("cl" if cl is not None else ("chunked" if ver == "1.1" else "close"))
            bad = None
            if r is None or not r.ok or r.errors or not r.complete:
                bad = "malformed-or-incomplete"
            elif r.framing != want_framing:
                bad = "framing-%s-expected-%s" % (r.framing, want_framing)
            elif r.framing == "chunked" and r.terminators != 1:
                bad = "terminating-chunks:%d" % r.terminators
            elif r.body != exp:
                bad = "body-differs:file:%s" % r.framing
            if bad:
                vio.append(Violation("real-socket-file-response", "C02/real:" + bad,
                                     observed={"path": path, "method": method, "version": ver, "kind": kind, "sendfile": case["sendfile"],
                                               "got_len": len(r.body) if r is not None else None, "head": data[:200], "error": err},
                                     expected={"len": len(exp), "framing": want_framing}))
                break
        if not vio and kind != "sync":
            # two keep-alive requests on one connection: the second response starts exactly where the first ends
            # (the second request is sent after the first response arrived: pipelining both in one segment runs into the
            # open gthread finding C13/...request-buffered-in-parser, which is not C02's subject)
            c = srv.connect()
            c.settimeout(8)
            c.sendall(b"GET /file/69990/none HTTP/1.1\r\nHost: x\r\n\r\n")
            data = b""
            while True:
                r1 = ref_response.parse_response(data, 0, "GET") if data else None
                if r1 is not None and r1.ok and r1.complete:
                    break
                try:
                    d = c.recv(65536)
                except OSError:
                    d = b""
                if not d:
                    break
                data += d
            c.sendall(b"GET /file/0/10 HTTP/1.1\r\nHost: x\r\nConnection: close\r\n\r\n")
            more, err = renv.read_all(c, 8)
            data += more
            c.close()
            r1 = ref_response.parse_response(data, 0, "GET")
            r2 = ref_response.parse_response(data, r1.end, "GET") if r1 is not None and r1.end else None
            n += 2
            if not (r1 is not None and r1.ok and r1.complete and r1.body == wenv.FILE_BYTES[69990:] and r2 is not None and r2.ok and r2.complete
                    and r2.body == wenv.FILE_BYTES[:10] and r2.end == len(data)):
                vio.append(Violation("real-socket-file-response", "C02/real:keep-alive-pair-misframed",
                                     observed={"wire": data[:400], "kind": kind}, expected="two complete responses, nothing else"))
        return Outcome(vio, True, ["engine:R", "kind:" + kind, "sendfile:%s" % case["sendfile"]], key="R|%s|%s" % (kind, case["sendfile"]),
                       sample={"case": case, "requests": n}, counts={"real-requests": n})
    finally:
        srv.cleanup()


def asked_close(req):
    toks = [t.strip().lower() for t in (req.get("connection") or "").split(",")]
    if "close" in toks:
        return True
    if req["version"] == "1.0":
        return "keep-alive" not in toks
    return False


def run_case(case):
    if case.get("engine") == "R":
        return run_real(case)
    kind = case["kind"]
    cfg = wenv.make_cfg(keepalive=case["keepalive"], sendfile=case["sendfile"], worker_connections=10, threads=2,
                        accesslog=None)
    reqs = case["requests"]
    progs = case["progs"]
    raw = "".join(gen_app.render_request(r) for r in reqs).encode("latin-1")
    cut = case.get("cut", 0)
    segs = [raw[:cut], raw[cut:]] if 0 < cut < len(raw) else [raw]
    app = wenv.AppProgram(progs)
    env = wenv.Env(kind, cfg, app)
    sock = wenv.FakeSocket(segs)
    escaped = env.serve(sock)
    data = sock.received()
    vio = []
    classes = ["kind:" + kind, "keepalive:%d" % case["keepalive"]]
    nontrivial = False

    def V(clause, sig, observed=None, expected=None):
        vio.append(Violation(clause, "C02/" + sig, observed={"detail": observed, "wire": data[:1500], "calls": len(app.calls)},
                             expected=expected))

    if escaped is not None:
        V("no-escape", "exception-escaped-handle:" + type(escaped).__name__, repr(escaped), "handle() returns")
        return Outcome(vio, True, classes)
    pos = 0
    stop = False
    for i, rq in enumerate(reqs):
        if i >= len(app.calls):
            break
        prog = progs[min(i, len(progs) - 1)]
        rec = app.calls[i]
        rs = prog.get("restart")
        if rs and rs.get("exc_info") and rs.get("when") == "before_write" and not rs.get("catch") and not rec["start_errors"] and rec["start_calls"] >= 2:
            prog = dict(prog, status=rs["status"], headers=rs["headers"])        # the accepted second call replaces the first
        out, cl = gen_app.expected_output(prog)
        code = int(prog["status"].split()[0])
        method = rq["method"]
        nobody = method == "HEAD" or code in (204, 304)
        fail = prog.get("fail") if rec["raised"] else None      # what actually happened, not what was planned
        kept = len(app.calls) > i + 1
        misbehaves = (not nobody and cl is not None and cl > len(out)) or (nobody and len(out) > 0)
        if misbehaves and not fail:
            classes.append("app_misbehaves")
            stop = True
            break
        resp = ref_response.parse_response(data, pos, "GET" if fail else method)
        if resp is None and fail and prog.get("fail_exc") in OSERROR_FAMILY:
            # the application itself raised an OSError: the workers take any OSError coming out of handle_request() for trouble
            # with the client socket, log it and just close - no response at all, which the statement does not forbid
            classes.append("fail:oserror-silent-close")
            stop = True
            break
        if resp is None:
            V("one-response-per-call", "no-response-for-handled-request", {"request": i}, "a response")
            break
        if resp.ok and resp.status == 100:
            if not rq.get("expect"):
                V("interim", "unsolicited-100-continue", resp.brief(), "no interim response")
                break
            if rq["version"] == "1.0":
                V("interim", "100-continue-sent-to-http10-client", resp.brief(),
                  "RFC 9110 10.1.1: a 100-continue expectation in an HTTP/1.0 request MUST be ignored")
                break
            classes.append("interim-100")
            pos = resp.end
            resp = ref_response.parse_response(data, pos, "GET" if fail else method)
            if resp is None and fail and prog.get("fail_exc") in OSERROR_FAMILY:
                classes.append("fail:oserror-silent-close")
                stop = True
                break
            if resp is None:
                V("one-response-per-call", "no-final-response-after-100", None, "a final response")
                break
        if fail:
            classes.append("fail:" + fail)
            # headers unsent -> exactly one 500 page; sent -> truncated/closed; never keep-alive afterwards
            if kept:
                V("failure-closes", "request-served-after-application-failure", {"request": i, "fail": fail}, "connection closed")
            if not resp.ok or resp.errors:
                V("failure-response", "malformed-response-after-failure:%s" % (resp.errors[:1] or ["head"])[0], resp.brief(), "well-formed head")
            elif resp.status == 500 and resp.header(b"connection") == [b"close"] and code != 500:
                if not resp.complete or resp.framing != "cl":
                    V("failure-response", "error-page-misframed", resp.brief(), "Content-Length framed 500 page")
                elif resp.end != len(data):
                    V("failure-response", "bytes-after-error-page", {"extra": data[resp.end:resp.end + 200]}, "nothing")
            elif not nobody and not out[:cl if cl is not None else len(out)].startswith(resp.body) and resp.status == code \
                    and not (code == 500 and resp.body.startswith(b"<html>") and b"Internal Server Error" in resp.body):
                # headers (and maybe part of the body) were sent before the failure: what the client decodes is a prefix of what
                # the application produced - nothing else (an error page, a second head) is spliced into the running response
                V("failure-response", "foreign-bytes-in-response-body-after-failure:%s" % resp.framing,
                  {"decoded_tail": resp.body[-120:], "decoded_len": len(resp.body), "exception": prog.get("fail_exc") or "RuntimeError"},
                  "a prefix of the application's output")
            elif resp.framing == "chunked" and resp.complete and fail in ("mid",) and rec["raised"] == "app:mid" \
                    and prog.get("fail_k", 0) < len(prog.get("chunks", [])):
                V("failure-response", "complete-chunked-response-after-mid-body-failure", resp.brief(), "no terminating chunk")
            stop = True
            break
        # ---- well-behaved application, no failure
        if not resp.ok or resp.errors:
            V("well-formed", "malformed-response:%s" % (resp.errors[:1] or ["head"])[0].split(":")[0], resp.brief(), "well-formed response")
            break
        want_status = prog["status"].encode("latin-1")
        got_status = (b"%d" % resp.status) + (b" " + resp.reason if resp.status_line.encode("latin-1")[12:13] == b" " else b"")
        if got_status != want_status and got_status.rstrip() != want_status:
            V("status", "status-differs", {"got": got_status, "want": want_status})
            break
        exp_body = b"" if nobody else (out if cl is None else out[:cl])
        if nobody:
            want_framing = "none"
        elif cl is not None:
            want_framing = "cl"
        elif rq["version"] == "1.1":
            want_framing = "chunked"
        else:
            want_framing = "close"
        if resp.framing != want_framing:
            V("framing", "framing-%s-expected-%s" % (resp.framing, want_framing), resp.brief(), want_framing)
            break
        if resp.framing == "cl" and int(resp.header(b"content-length")[0]) != cl:
            V("framing", "content-length-header-differs", resp.brief(), cl)
            break
        if not resp.complete:
            V("framing", "response-incomplete:%s" % resp.framing, resp.brief(), "complete response")
            break
        if resp.framing == "chunked" and resp.terminators != 1:
            V("framing", "terminating-chunks:%d" % resp.terminators, resp.brief(), "exactly one terminating chunk")
            break
        if resp.body != exp_body:
            V("body", "body-differs:%s:%s" % (prog["mode"], resp.framing),
              {"got_len": len(resp.body), "got_head": resp.body[:100], "prog": prog}, {"len": len(exp_body), "head": exp_body[:100]})
            break
        if resp.framing == "close" and kept:
            V("keep-alive", "kept-open-after-close-delimited-response", resp.brief(), "connection closed")
            break
        conn_hdr = b",".join(resp.header(b"connection")).lower()
        if kept:
            if asked_close(rq):
                V("keep-alive", "kept-open-although-client-asked-close", {"request": rq, "response": resp.brief()}, "closed")
                break
            if b"close" in conn_hdr or (rq["version"] == "1.0" and b"keep-alive" not in conn_hdr):
                V("keep-alive", "kept-open-but-head-announced-close", {"connection": conn_hdr, "request": rq}, "closed")
                break
            classes.append("kept-alive")
            nontrivial = True
        if len(out) > 0 and (prog["mode"] in ("file", "bytesio") or len([c for c in prog.get("chunks", []) if c]) >= 2):
            nontrivial = True
        classes.append("mode:" + prog["mode"])
        classes.append("framing:" + resp.framing)
        pos = resp.end
    else:
        pass
    if not vio and not stop:
        if pos != len(data):
            V("nothing-follows", "bytes-after-last-response", {"extra": data[pos:pos + 300], "pos": pos}, "nothing after the last response")
    if not vio and not sock.closed:
        V("closed", "connection-left-open", None, "server closes the connection")
    return Outcome(vio, nontrivial, classes,
                   sample={"kind": kind, "keepalive": case["keepalive"], "requests": reqs, "progs": progs[:len(reqs)],
                           "wire_head": data[:200], "calls": len(app.calls)})
