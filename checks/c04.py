"""C04 Graceful shutdown completes in-flight requests and leaves nothing behind — engine R (real processes)."""
import hashlib
import itertools
import os
import signal
import time

from vlib.common import Outcome, Violation
from vlib import renv, ref_response

PROPERTY = "C04"
RULE = ("finite matrix worker class {sync,gthread,gevent,eventlet} x phase of a client connection at signal time {accepted-idle, head "
        "partly sent, application running (gate file), response partly written, keep-alive idle} x application {finishes 0.3 s after the "
        "signal, overruns graceful_timeout, never finishes} x signal {TERM, INT, QUIT} x bind {tcp, unix} (plus the history 'one HUP before the signal' for every class x signal x bind, and two-listener servers with the request on either listener), each with a real master + "
        "worker started from the working tree, graceful_timeout=4, plus a seeded sub-second jitter before the signal (thorough: the "
        "whole matrix; quick: a seeded slice of up to 112 cells). Oracle: TERM and a request a worker had started reading and an application "
        "finishing in time => complete response (independent response reader); master exit status 0 within graceful_timeout+4 s (INT/"
        "QUIT: within 4 s); afterwards no process of the master's session alive, listener not connectable, pid file and unix socket file "
        "gone. (K) the real Arbiter.run() on C03's simulated kernel: pool 1-4 x history of worker deaths / workers on their way out / "
        "TTIN / TTOU / HUP / hung workers, then TERM, QUIT or INT to the master while some workers die by themselves at the arbiter's next "
        "system-call boundaries x schedule vector: run() leaves through sys.exit(0) without an exception, within graceful_timeout (virtual "
        "time), every worker alive at the signal was told to stop and none survives without a SIGKILL. "
        "non-trivial = a request was in flight at the signal (R) / a worker was in transit at the signal (K); distinct by cell")
ASSUMPTIONS = [
    "the signal lands somewhere inside the controlled phase: kernel scheduling inside gunicorn is not owned by the harness",
    "'started reading' is asserted only where the harness knows a handler is reading: sync any accepted connection, gthread >=1 byte "
    "sent with a free thread, gevent/eventlet accepted",
    "wall-clock bounds carry 4 s of slack; a server that does not become ready within 25 s makes the cell inconclusive, not a violation",
]
BUDGET = {"quick": (16, 150), "thorough": (16, 20000)}
G = 4

KINDS = ["sync", "gthread", "gevent", "eventlet"]
PHASES = ["idle", "head-partial", "app-running", "response-partial", "keepalive-idle"]
APPS = ["finish", "overrun", "never"]
SIGS = ["TERM", "INT", "QUIT"]
BINDS = ["tcp", "unix"]


def matrix():
    for kind, phase, app, sig, bind in itertools.product(KINDS, PHASES, APPS, SIGS, BINDS):
        if phase in ("idle", "keepalive-idle") and app != "finish":
            continue
        yield {"kind": kind, "phase": phase, "app": app, "sig": sig, "bind": bind}
    # two listeners: the request in flight is on one of them, the other is idle
    for kind, phase, which in itertools.product(KINDS, ["app-running", "response-partial", "head-partial"], [0, 1]):
        yield {"kind": kind, "phase": phase, "app": "finish", "sig": "TERM", "bind": "unix", "two_binds": which}
    # the request being read when the signal arrives is the second one on a kept-alive connection (async workers' keep-alive loop)
    for kind, bind in itertools.product(["gevent", "eventlet"], BINDS):
        yield {"kind": kind, "phase": "keepalive-head-partial", "app": "finish", "sig": "TERM", "bind": bind}
    # non-default listener set-up: SO_REUSEPORT
    for kind, sig in itertools.product(KINDS, SIGS):
        yield {"kind": kind, "phase": "app-running" if sig == "TERM" else "idle", "app": "finish", "sig": sig, "bind": "tcp", "reuse_port": True}
    # a TCP listener in front of a unix one (the position of the unix listener in the list must not matter for its clean-up)
    for kind, sig in itertools.product(KINDS, SIGS):
        yield {"kind": kind, "phase": "app-running" if sig == "TERM" else "idle", "app": "finish", "sig": sig, "bind": "tcp", "two_binds": 0}
    # histories: a busy worker is retired (TTOU with 2 workers, both inside a request that never ends) before the shutdown signal
    for kind, sig in itertools.product(KINDS, SIGS):
        yield {"kind": kind, "phase": "idle", "app": "finish", "sig": sig, "bind": "unix", "prelude": "retire-busy"}
    # histories: one reload (HUP) before the shutdown signal - the end state must be the same
    for kind, sig, bind in itertools.product(KINDS, SIGS, BINDS):
        yield {"kind": kind, "phase": "idle", "app": "finish", "sig": sig, "bind": bind, "prelude": "hup"}


def extra_cases(tier, seed, shard, nshards):
    cells = list(matrix())
    if tier == "quick":
        # seeded slice that keeps every kind x phase x signal-class represented
        def key(c):
            return hashlib.sha1(("%d|%s" % (seed, sorted(c.items()))).encode()).hexdigest()
        cells.sort(key=key)
        picked = []
        seen = set()
        for c in cells:
            k = (c["kind"], c["phase"], "TERM" if c["sig"] == "TERM" else "quick", c.get("prelude"), c.get("two_binds"), c["bind"] if c.get("two_binds") is not None else None, bool(c.get("reuse_port")))
            k = k + (c["bind"],) if c["phase"] == "keepalive-head-partial" else k
            if k not in seen or (c["app"] == "finish" and c["sig"] == "TERM" and (c["kind"], c["phase"], "f") not in seen):
                seen.add(k)
                if c["app"] == "finish" and c["sig"] == "TERM":
                    seen.add((c["kind"], c["phase"], "f"))
                picked.append(c)
        cells = picked[:112]
    for i, c in enumerate(cells):
        if i % nshards == shard:
            j = int(hashlib.sha1(("%d-%d" % (seed, i)).encode()).hexdigest()[:4], 16) / 65535.0
            yield dict(c, jitter=round(0.05 + 0.4 * j, 3))


EXHAUSTIVE_NOTE = "thorough tier enumerates all %d cells of the matrix; quick a seeded slice of up to 112" % len(list(matrix()))


def strategy(tier):
    """engine K: the real Arbiter.run() on the simulated kernel (see C03) is told to stop while workers die, are being retired or hang"""
    from hypothesis import strategies as st
    ev = st.one_of(
        st.tuples(st.just("exit"), st.integers(0, 4), st.sampled_from([0, 1 << 8, 9, 15])),
        st.tuples(st.just("exit_soon"), st.integers(0, 4), st.sampled_from([0, 0, 1 << 8, 9])),
        st.tuples(st.just("exit_soon"), st.integers(0, 4), st.sampled_from([0, 15])),
        st.tuples(st.just("sig"), st.lists(st.sampled_from(["SIGTTIN", "SIGTTOU", "SIGTTOU"]), min_size=1, max_size=3)),
        st.tuples(st.just("hang"), st.integers(0, 3), st.sampled_from(["hung", "hung-ignore-abrt"])),
        st.tuples(st.just("hup"), st.integers(1, 3)),
        st.tuples(st.just("tick")),
    )
    return st.fixed_dictionaries({
        "engine": st.just("K"),
        "workers": st.integers(1, 4),
        "graceful": st.sampled_from([1, 2, 3]),
        "events": st.lists(ev, min_size=0, max_size=6).map(lambda l: [list(e) for e in l]),
        "final": st.sampled_from(["SIGTERM", "SIGTERM", "SIGQUIT", "SIGINT"]),
        "with_final": st.lists(st.tuples(st.just("exit_soon"), st.integers(0, 4), st.sampled_from([0, 1 << 8])), max_size=2).map(
            lambda l: [list(e) for e in l]),
        "sched": st.lists(st.integers(0, 11), max_size=60),
    })


def run_sim(case):
    from vlib import ksim
    # workers that are on their way out when the stop signal arrives are marked in the same idle period as the signal
    events = [list(e) for e in case["events"]] + [["multi"] + [list(e) for e in case["with_final"]] + [["msig", case["final"]]]]
    flat = []
    for e in events:
        if e[0] == "multi":
            flat.append(e)
        else:
            flat.append(e)
    k = ksim.Kernel(case["sched"], [], quiesce_steps=40)
    # "multi" = several things happen within one idle period of the master
    orig_apply = k.apply_event

    def apply(ev):
        if ev[0] == "multi":
            for sub in ev[1:]:
                orig_apply(sub)
        else:
            orig_apply(ev)
    k.apply_event = apply
    k.events = flat
    out = ksim.run_arbiter(k, {"workers": case["workers"], "timeout": 30, "graceful_timeout": case["graceful"]})
    vio = []

    def V(clause, sig, observed=None, expected=None):
        vio.append(Violation(clause, "C04/sim:" + sig, observed={"detail": observed, "trace": k.trace[-14:], "case": case}, expected=expected))

    stopped_at = getattr(k, "stop_signal_at", None)
    classes = ["engine:K", "final:" + case["final"], "workers:%d" % case["workers"]]
    if stopped_at is None:
        return Outcome([], False, classes + ["inconclusive:signal-not-delivered:%s" % out["left"]], sample={"case": case})
    graceful = case["final"] == "SIGTERM"
    if out["error"]:
        V("master-exits-0", "arbiter-raised:" + out["error"].split(":")[0], out["error"], "exit status 0")
    elif out["exit"] != 0:
        V("master-exits-0", "arbiter-exit-status-%s" % out["exit"], {"exit": out["exit"], "left": out["left"]}, 0)
    else:
        took = k.clock - stopped_at
        limit = (case["graceful"] if graceful else 0) + 2.5
        if took > limit + 1e-6 and graceful:
            V("exits-in-time", "master-exit-late:graceful", {"took": took}, "<= graceful_timeout + slack")
        survivors = [p.pid for p in k.live() if 9 not in [s for _, s in p.signals]]
        if survivors:
            V("no-worker-survives", "worker-neither-dead-nor-killed-at-master-exit", {"pids": survivors}, "every live worker was sent SIGKILL at the latest")
        want = int(signal.SIGTERM if graceful else signal.SIGQUIT)
        for pid in getattr(k, "live_at_stop", []):
            p = k.procs[pid]
            sigs = [s for t, s in p.signals if t >= stopped_at - 1e-9]
            died = [t for t in k.trace if t[0] == "died" and t[1] == pid]
            if want not in sigs and 9 not in sigs and not died:
                V("workers-told-to-stop", "live-worker-never-signalled-at-shutdown", {"pid": pid, "signals": p.signals}, want)
                break
    dying = len(case["with_final"]) > 0 or any(e[0] in ("exit_soon", "sig", "hang") for e in case["events"])
    return Outcome(vio, dying, classes + ["workers-in-transit:%s" % dying], sample={"case": case, "exit": out["exit"], "trace": k.trace[-8:]})


def run_case(case):
    if case.get("engine") == "K":
        return run_sim(case)
    kind, phase, app, sig, bind = case["kind"], case["phase"], case["app"], case["sig"], case["bind"]
    signum = getattr(signal, "SIG" + sig)
    classes = ["kind:" + kind, "phase:" + phase, "app:" + app, "sig:" + sig, "bind:" + bind]
    srv = renv.Server(kind=kind, workers=2 if case.get("prelude") == "retire-busy" else 1, bind=bind, graceful=G, timeout=30,
                      threads=2 if kind == "gthread" else None, keepalive=8, extra=["--reuse-port"] if case.get("reuse_port") else ())
    if case.get("two_binds") is not None:
        srv.cleanup()
        import os as _os
        import tempfile as _tf
        second = _os.path.join(_tf.gettempdir(), "verif-second-%d-%d.sock" % (_os.getpid(), int(time.time() * 1000) % 100000))
        srv = renv.Server(kind=kind, workers=1, bind=bind, graceful=G, timeout=30, threads=2 if kind == "gthread" else None,
                          keepalive=8, extra_binds=["unix:" + second])
        srv.second = second
        if case["two_binds"] == 1:
            srv.first_addr = srv.addr
            srv.addr = second           # the client talks to the second listener
    vio = []

    def V(clause, sig_, observed=None, expected=None):
        vio.append(Violation(clause, "C04/" + sig_, observed={"detail": observed, "case": case, "log_tail": srv.logtext()[-1500:]},
                             expected=expected))

    try:
        if not srv.wait_ready():
            return Outcome([], False, classes + ["inconclusive:not-ready"], sample={"case": case, "log": srv.logtext()[-400:]})
        busy = []
        if case.get("prelude") == "retire-busy":
            # both workers get a request that never finishes, then one of them is retired while busy
            for i in range(6):
                cc = srv.connect()
                cc.sendall(("GET /hang/b%d HTTP/1.1\r\nHost: x\r\n\r\n" % i).encode())
                busy.append(cc)
                srv.started("b%d" % i, 2.0)
                pids = set()
                for j in range(i + 1):
                    try:
                        pids.add(open(srv.scratch + "/started-b%d" % j).read())
                    except OSError:
                        pass
                if len(pids) >= 2:
                    break
            srv.signal(signal.SIGTTOU)
            time.sleep(0.8)
            classes.append("prelude:retire-busy")
        if case.get("prelude") == "hup":
            before = srv.workers()
            srv.signal(signal.SIGHUP)
            t0 = time.time()
            while time.time() - t0 < 10:
                now = srv.workers()
                if now and not (set(now) & set(before)):
                    break
                time.sleep(0.1)
            if not srv.wait_ready(10):
                return Outcome([], False, classes + ["inconclusive:not-ready-after-hup"], sample={"case": case})
            classes.append("prelude:hup")
        in_flight = phase in ("head-partial", "app-running", "response-partial", "keepalive-head-partial") or case.get("prelude") == "retire-busy"
        c = None
        got_first = b""
        expect_response = sig == "TERM" and app == "finish" and phase in ("head-partial", "app-running", "response-partial", "keepalive-head-partial")
        # ---------------- bring the connection into the phase
        if phase == "idle":
            c = srv.connect()
        elif phase == "head-partial":
            target = {"finish": "/slow/0.3", "overrun": "/slow/%d" % (G + 4), "never": "/hang/h1"}[app]
            req = ("GET %s HTTP/1.1\r\nHost: x\r\nConnection: close\r\n\r\n" % target).encode()
            c = srv.connect()
            c.sendall(req[:len(req) // 2])
            time.sleep(0.4)
        elif phase == "app-running":
            c = srv.connect()
            c.sendall(b"GET /gate/g1 HTTP/1.1\r\nHost: x\r\nConnection: close\r\n\r\n")
            if not srv.started("g1"):
                return Outcome([], False, classes + ["inconclusive:app-not-started"], sample={"case": case})
        elif phase == "response-partial":
            c = srv.connect()
            c.sendall(b"GET /stream/s1 HTTP/1.1\r\nHost: x\r\nConnection: close\r\n\r\n")
            c.settimeout(8)
            t0 = time.time()
            while b"first-chunk" not in got_first and time.time() - t0 < 8:
                try:
                    d = c.recv(65536)
                except OSError:
                    break
                if not d:
                    break
                got_first += d
            if b"first-chunk" not in got_first or not srv.started("s1"):
                return Outcome([], False, classes + ["inconclusive:no-first-chunk"], sample={"case": case})
        elif phase in ("keepalive-idle", "keepalive-head-partial"):
            c = srv.connect()
            c.sendall(b"GET /pid HTTP/1.1\r\nHost: x\r\n\r\n")
            buf = b""
            c.settimeout(8)
            while True:
                r = ref_response.parse_response(buf, 0, "GET") if buf else None
                if r is not None and r.ok and r.complete:
                    break
                try:
                    d = c.recv(65536)
                except OSError:
                    d = b""
                if not d:
                    break
                buf += d
            r = ref_response.parse_response(buf, 0, "GET") if buf else None
            if r is None or not r.complete:
                return Outcome([], False, classes + ["inconclusive:no-keepalive-response"], sample={"case": case})
            if kind == "sync":
                classes.append("sync-has-no-keepalive")
            if phase == "keepalive-head-partial":
                req = b"GET /slow/0.3 HTTP/1.1\r\nHost: x\r\nConnection: close\r\n\r\n"
                c.sendall(req[:len(req) // 2])
                time.sleep(0.4)
        time.sleep(case.get("jitter", 0.1))
        # ---------------- the signal
        t_sig = time.time()
        srv.signal(signum)
        # ---------------- the client's side after the signal
        data = b""
        err = None
        if phase == "idle":
            time.sleep(0.3)
        elif phase in ("head-partial", "keepalive-head-partial"):
            time.sleep(1.6)          # async workers close their listener up to 1 s after TERM
            try:
                c.sendall(req[len(req) // 2:])
            except OSError as e:
                err = "send:%s" % e
            if expect_response:
                data, err2 = renv.read_all(c, G + 6)
                err = err or err2
        elif phase == "app-running":
            time.sleep(0.3)
            if app == "finish":
                srv.gate_open("g1")
            if expect_response:
                data, err = renv.read_all(c, G + 6)
        elif phase == "response-partial":
            time.sleep(0.3)
            if app == "finish":
                srv.gate_open("s1")
            if expect_response:
                data, err = renv.read_all(c, G + 6)
                data = got_first + data
        limit = (G + 4) if sig == "TERM" else 3
        remaining = max(0.5, limit + 2 - (time.time() - t_sig))
        status = srv.wait_exit(remaining)
        elapsed = time.time() - t_sig
        if app == "overrun":
            if phase == "app-running":
                srv.gate_open("g1")
            elif phase == "response-partial":
                srv.gate_open("s1")
        if c is not None:
            try:
                c.close()
            except OSError:
                pass
        for cc in busy:
            try:
                cc.close()
            except OSError:
                pass
        # ---------------- verdicts
        if expect_response:
            r = ref_response.parse_response(data, 0, "GET") if data else None
            ok = r is not None and r.ok and r.status == 200 and r.complete and not r.errors
            if ok and phase == "app-running" and b"gate-done" not in r.body:
                ok = False
            if ok and phase == "response-partial" and not (b"second-chunk" in r.body and b"end pid=" in r.body and r.terminators == 1):
                ok = False
            if not ok:
                V("in-flight-answered", "in-flight-request-not-answered:%s:%s" % (phase, "async" if kind in ("gevent", "eventlet") else kind),
                  {"received": data[:300], "error": err, "parsed": r.brief() if r is not None else None}, "complete 200 response")
        if status is None:
            V("exits-in-time", "master-still-running:%s:%s:%s" % ("TERM" if sig == "TERM" else "quick", kind, "in-flight" if in_flight else "no-request"),
              {"elapsed": round(elapsed, 2), "limit": limit}, "exit within %d s" % limit)
        else:
            if status != 0:
                V("exit-status", "master-exit-status-%s" % status, {"status": status}, 0)
            if elapsed > limit:
                V("exits-in-time", "master-exit-late:%s:%s:%s" % ("TERM" if sig == "TERM" else "quick", kind, "in-flight" if in_flight else "no-request"),
                  {"elapsed": round(elapsed, 2), "graceful_timeout": G}, "<= %d s" % limit)
            time.sleep(0.1)
            left = srv.session_procs()
            if left:
                V("no-survivors", "process-survives-master", {"pids": left, "stat": [renv.stat(p) for p in left]}, "none")
            if renv.connectable(srv):
                V("listener-closed", "listener-still-connectable", None, "connection refused")
            if os.path.exists(srv.pidfile):
                V("pidfile-removed", "pid-file-left-behind", {"content": open(srv.pidfile).read()}, "removed")
            if bind == "unix" and os.path.exists(srv.sockpath):
                V("socket-file-removed", "unix-socket-file-left-behind", None, "removed")
            if getattr(srv, "second", None) and os.path.exists(srv.second):
                V("socket-file-removed", "unix-socket-file-left-behind:second-listener", None, "removed")
                os.unlink(srv.second)
        return Outcome(vio, in_flight, classes + ["exit:%s" % status, "elapsed:%d" % int(elapsed)],
                       key="|".join("%s" % case.get(k) for k in ("kind", "phase", "app", "sig", "bind", "prelude", "two_binds", "reuse_port")),
                       sample={"case": case, "elapsed": round(elapsed, 2), "status": status, "response_head": data[:80]})
    finally:
        srv.cleanup()
