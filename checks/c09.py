"""C09 Application-supplied status and headers cannot split or forge a response — engine W."""
import re

from hypothesis import strategies as st

from vlib.common import Outcome, Violation
from vlib import wenv

PROPERTY = "C09"
RULE = ("status strings, header names and header values drawn over the whole alphabet (CR, LF, NUL, other CTLs, DEL, obs-text, "
        "non-latin-1, empty, long; forbidden bytes at the start / middle / end) x hop-by-hop names in any case x websocket upgrade x "
        "start_response programs (single call, second call with/without exc_info before/after the first write, optionally caught by the "
        "application which then carries on with its first response; the application mutating its header list after the call) x body x HTTP/1.0|1.1 "
        "x worker class; oracle: if any status/name/value handed to an executed start_response contains CR/LF/NUL or a name is not a "
        "token, nothing of the application's head is on the wire (empty or exactly one server error page); otherwise the head is "
        "line-for-line [status-line, Server, Date, Connection, (Transfer-Encoding)] + one line per accepted header in order, "
        "hop-by-hop names absent; exactly one status line on the wire whatever fails afterwards; plain valid inputs must not be refused. non-trivial = a forbidden byte is present or a second "
        "start_response call occurs; distinct by case hash")
ASSUMPTIONS = [
    "refusing more than the statement demands (other CTLs, DEL, non-latin-1, odd status strings) is allowed; only inputs that are "
    "plainly valid (3-digit status + printable reason, token names, printable values) must be accepted",
    "Upgrade: websocket pass-through and Connection: upgrade are the documented exceptions to hop-by-hop filtering",
]
BUDGET = {"quick": (16, 800), "thorough": (16, 30000)}

TOKEN = re.compile(r"^[!#$%&'*+\-.^_`|~0-9a-zA-Z]+\Z")
HOP = {"connection", "keep-alive", "proxy-authenticate", "proxy-authorization", "te", "trailers", "transfer-encoding",
       "upgrade", "server", "date"}
BAD = ["\r", "\n", "\x00", "\r\n", "\r\nX-Evil: 1", "\nX-Evil: 1", "\r\n\r\nHTTP/1.1 200 OK\r\n\r\n", "\x00x"]
ODD = ["\x0b", "\x7f", "\x01", "\x85", "\xe9", "Ā", " ", "\t", " ", "\x1f"]

name_st = st.one_of(
    st.sampled_from(["X-App", "Content-Type", "Set-Cookie", "X-A", "Location", "ETag", "x-lower", "X_Under"]),
    st.sampled_from(["Connection", "connection", "Keep-Alive", "TE", "Trailers", "Transfer-Encoding", "transfer-encoding",
                     "Upgrade", "UPGRADE", "Server", "Date", "Proxy-Authenticate", "Proxy-Authorization"]),
    st.sampled_from(["", "X App", "X-App:", "X-App\r\n", "X\nY", "X\x00", "X-\xe9", "(x)", "X-App ", " X-App", "X\tY", "\r\nX-Evil"]),
)
plain_value = st.sampled_from(["v", "text/plain", "a=b; Path=/", "", "x" * 300, "1", "chunked", "close", "keep-alive",
                               "websocket", "upgrade", "Upgrade", "WebSocket", "h2c", "gunicorn/evil"])


@st.composite
def value_st(draw):
    v = draw(plain_value)
    k = draw(st.integers(0, 9))
    if k == 0:
        b = draw(st.sampled_from(BAD))
        pos = draw(st.sampled_from(["start", "mid", "end"]))
        v = b + v if pos == "start" else (v + b if pos == "end" else v[:len(v) // 2] + b + v[len(v) // 2:])
    elif k == 1:
        v = v + draw(st.sampled_from(ODD)) + "z"
    elif k == 2:
        v = draw(st.sampled_from([" ", "\t"])) + v + draw(st.sampled_from([" ", "\t", "  "]))
    return v


@st.composite
def status_st(draw):
    s = draw(st.sampled_from(["200 OK", "200 OK", "404 Not Found", "204 No Content", "500 Oops", "200", "299 Any Reason (x)",
                              "101 Switching Protocols", "302 Found"]))
    k = draw(st.integers(0, 11))
    if k == 0:
        b = draw(st.sampled_from(BAD))
        s = draw(st.sampled_from([s + b, b + s, s[:3] + b + s[3:], s[:5] + b]))
    elif k == 1:
        s = draw(st.sampled_from(["", "abc", "20 OK", "2000 OK", " 200 OK", "200\tOK", "200 caf\xe9", "200 Ā", "200 \x7f", "200 \x0b"]))
    return s


headers_st = st.lists(st.tuples(name_st, value_st()).map(list), min_size=0, max_size=5)


def strategy(tier):
    return st.fixed_dictionaries({
        "kind": st.sampled_from(list(wenv.KINDS)),
        "version": st.sampled_from(["1.1", "1.1", "1.0"]),
        "method": st.sampled_from(["GET", "GET", "HEAD", "POST"]),
        "status": status_st(),
        "headers": headers_st,
        "mode": st.sampled_from(["list", "write", "write+list", "gen"]),
        "chunks": st.lists(st.sampled_from(["", "a", "hello", "B" * 50]), min_size=0, max_size=3),
        "cl": st.sampled_from([None, None, "exact"]),
        # the application mutates the list object it passed, after start_response() accepted it
        "late_headers": st.sampled_from([None, None, None, "append", "replace", "clear", "extend"]),
        "restart": st.one_of(st.none(), st.none(), st.fixed_dictionaries({
            "when": st.sampled_from(["before_write", "after_write"]),
            "exc_info": st.booleans(),
            "status": status_st(),
            "headers": headers_st,
            "cl": st.sampled_from([None, "exact"]),
            "catch": st.sampled_from([False, False, True]),      # the application catches a refusal of this call and carries on
        })),
    })


def forbidden(status, headers):
    """-> reason string if the statement demands refusal of this start_response call"""
    if any(c in status for c in "\r\n\x00"):
        return "status"
    for k, v in headers:
        if not TOKEN.match(k):
            return "name"
        if any(c in v for c in "\r\n\x00"):
            return "value"
    return None


PRINT = re.compile(r"^[ -~]*\Z")


def plainly_valid(status, headers):
    if not re.match(r"^[1-5][0-9][0-9] [ -~]*\Z", status):
        return False
    for k, v in headers:
        if not TOKEN.match(k) or not PRINT.match(v):
            return False
        if k.lower() == "content-length" and not v.strip().isdigit():
            return False
    return True


def accepted_lines(headers):
    out = []
    upgrade = False
    for k, v in headers:
        v2 = v.strip(" \t")
        lk = k.lower().strip()
        if lk == "content-length":
            out.append("%s: %s" % (k, v2))
            continue
        if lk in HOP:
            if lk == "connection" and v2.lower() == "upgrade":
                upgrade = True
            elif lk == "upgrade" and v2.lower() == "websocket":
                out.append("%s: %s" % (k, v2))
            continue
        out.append("%s: %s" % (k, v2))
    return out, upgrade


def with_cl(headers, cl, total):
    h = [list(x) for x in headers]
    if cl == "exact":
        h.append(["Content-Length", str(total)])
    return h


ERR_PAGE = re.compile(rb"^HTTP/1\.1 [45][0-9][0-9] [A-Za-z ]+\r\nConnection: close\r\nContent-Type: text/html\r\n"
                      rb"Content-Length: (\d+)\r\n\r\n", re.S)


def is_error_page(data):
    m = ERR_PAGE.match(data)
    return bool(m) and len(data) - m.end() == int(m.group(1))


# ----- two requests inside one gthread worker at the same time (the schedule is the harness's: events between the two applications)
OVERLAP_HEADS = [
    ("200 OK", [["X-Who", "alpha"], ["Set-Cookie", "sid=alpha"]], "404 Not Found", [["X-Who", "beta"], ["Set-Cookie", "sid=beta"], ["X-Only-B", "1"]]),
    ("302 Found", [["Location", "/alpha"]], "200 OK", []),
    ("200 OK", [], "500 Oops", [["X-Who", "beta"]]),
]


REFUSED_SECOND_CALLS = [["Content-Length", "n/a"], ["Content-Length", ""], ["X-Bad\r\n", "v"], ["X-App", "v\r\nInjected: 1"], ["Bad Name", "x"],
                        ["X-Nul", "a\x00b"]]


def extra_cases(tier, seed, shard, nshards):
    n = 0
    # an accepted call, then a call the server refuses (for each kind of refusal) which the application survives: the head is the first call's
    for bad in REFUSED_SECOND_CALLS:
        for exc_info in (True, False):
            for kind in wenv.KINDS:
                n += 1
                if n % nshards == shard:
                    yield {"kind": kind, "version": "1.1", "method": "GET", "status": "200 OK",
                           "headers": [["Content-Type", "text/plain"], ["X-Page", "home"]], "mode": "list", "chunks": ["ok"], "cl": "exact",
                           "late_headers": None,
                           "restart": {"when": "before_write", "exc_info": exc_info, "status": "503 Service Unavailable",
                                       "headers": [["Set-Cookie", "session=gone"], bad], "cl": None, "catch": True}}
    for hi in range(len(OVERLAP_HEADS)):
        for order in ("first-in-first-to-start", "second-in-first-to-start"):
            for threads in (2, 4):
                n += 1
                if n % nshards == shard:
                    yield {"engine": "W2", "heads": hi, "order": order, "threads": threads}


EXHAUSTIVE_NOTE = ("accepted call followed by a refused-and-survived call: 6 kinds of refusal x exc_info x 4 worker classes; engine W2: %d heads x 2 start_response orders x 2 pool sizes - two requests inside one gthread worker at the same time, "
                   "each response carries its own application's status and header lines only" % len(OVERLAP_HEADS))


def run_overlap(case):
    import threading
    from gunicorn.workers.gthread import TConn
    sa, ha, sb, hb = OVERLAP_HEADS[case["heads"]]
    ev = {k: threading.Event() for k in ("a_in", "b_in", "a_started", "b_started")}
    wedged = []

    def wait(k):
        if not ev[k].wait(10.0):
            wedged.append(k)

    def app(environ, start_response):
        if environ["PATH_INFO"] == "/a":
            ev["a_in"].set()
            wait("b_in")
            if case["order"] == "second-in-first-to-start":
                wait("b_started")
            start_response(sa, [tuple(h) for h in ha])
            ev["a_started"].set()
            return [b"alpha"]
        ev["b_in"].set()
        if case["order"] == "first-in-first-to-start":
            wait("a_started")
        start_response(sb, [tuple(h) for h in hb])
        ev["b_started"].set()
        return [b"beta"]

    cfg = wenv.make_cfg(keepalive=2, worker_connections=10, threads=case["threads"])
    env = wenv.Env("gthread", cfg, app)
    socks = {k: wenv.FakeSocket([("GET /%s HTTP/1.1\r\nHost: h\r\nConnection: close\r\n\r\n" % k).encode()]) for k in ("a", "b")}
    escaped = {}

    def serve(k):
        try:
            conn = TConn(cfg, socks[k], socks[k].peer, env.listener.getsockname())
            conn.init()
            env.worker.handle(conn)
            conn.close()
        except BaseException as e:      # noqa
            escaped[k] = e

    ta = threading.Thread(target=serve, args=("a",), daemon=True)
    tb = threading.Thread(target=serve, args=("b",), daemon=True)
    ta.start()
    wait("a_in")
    tb.start()
    ta.join(30.0)
    tb.join(30.0)
    classes = ["engine:W2", "order:" + case["order"], "threads:%d" % case["threads"]]
    if wedged or ta.is_alive() or tb.is_alive():
        return Outcome([], False, classes + ["inconclusive:schedule-not-reached"], sample={"case": case, "wedged": wedged})
    vio = []
    for k, status, headers, other in (("a", sa, ha, hb), ("b", sb, hb, ha)):
        data = socks[k].received()
        head = data.split(b"\r\n\r\n")[0].decode("latin-1").split("\r\n")
        mine = ["%s: %s" % (n, v) for n, v in headers]
        app_lines = [l for l in head[1:] if l.split(":")[0].lower() not in ("server", "date", "connection", "transfer-encoding", "content-length")]
        if k in escaped or head[0] != "HTTP/1.1 " + status or app_lines != mine:
            vio.append(Violation("one-line-per-accepted-header", "C09/overlap:response-carries-another-requests-head",
                                 observed={"request": k, "status_line": head[0], "app_lines": app_lines, "escaped": repr(escaped.get(k)), "case": case},
                                 expected={"status": status, "lines": mine}))
            break
    return Outcome(vio, True, classes, key="W2|%s|%s|%s" % (case["heads"], case["order"], case["threads"]),
                   sample={"case": case, "wire_a": socks["a"].received()[:200]})


def run_case(case):
    if case.get("engine") == "W2":
        return run_overlap(case)
    kind = case["kind"]
    total = sum(len(c) for c in case["chunks"])
    h1 = with_cl(case["headers"], case["cl"], total)
    prog = {"status": case["status"], "headers": h1, "mode": case["mode"], "chunks": case["chunks"],
            "read_input": "none", "lazy_start": False, "late_headers": case.get("late_headers")}
    r = case.get("restart")
    if r:
        if case["mode"] not in ("write", "write+list") and r["when"] == "after_write":
            r = dict(r, when="before_write")
        r = dict(r, headers=with_cl(r["headers"], r["cl"], total))
        prog["restart"] = r
    cfg = wenv.make_cfg(keepalive=2, worker_connections=10, threads=2)
    app = wenv.AppProgram(prog)
    env = wenv.Env(kind, cfg, app)
    body = "abc" if case["method"] == "POST" else ""
    raw = "%s / HTTP/%s\r\nHost: h\r\n%s\r\n%s" % (case["method"], case["version"],
                                                  ("Content-Length: %d\r\n" % len(body)) if body else "", body)
    sock = wenv.FakeSocket([raw.encode()])
    escaped = env.serve(sock)
    data = sock.received()
    vio = []

    def V(clause, sig, observed=None, expected=None):
        vio.append(Violation(clause, "C09/" + sig, observed={"detail": observed, "wire": data[:1200], "prog": prog}, expected=expected))

    if escaped is not None:
        V("no-escape", "exception-escaped-handle:" + type(escaped).__name__, repr(escaped))
    rec = app.calls[0] if app.calls else None
    # ---- which start_response calls were executed, and what does the model say?
    f1 = forbidden(case["status"], h1)
    wrote_first = case["mode"] in ("write", "write+list") and len(case["chunks"]) > 0
    second_executed = bool(r) and not f1 and (r["when"] == "before_write" or wrote_first)
    effective = (case["status"], h1)
    must_refuse = f1
    expect_close_after_head = False
    if second_executed and r.get("catch"):
        caught = bool(rec and rec.get("restart_caught"))
        if not caught and r["when"] == "before_write":
            # the second call was accepted and replaces the first
            f2 = forbidden(r["status"], r["headers"])
            if f2:
                must_refuse = "restart-" + f2
            effective = (r["status"], r["headers"])
        # else: refused and survived - the head is that of the first call, untouched by anything the refused call carried
    elif second_executed:
        if r["when"] == "before_write":
            if r["exc_info"]:
                f2 = forbidden(r["status"], r["headers"])
                if f2:
                    must_refuse = "restart-" + f2
                effective = (r["status"], r["headers"])
            else:
                must_refuse = must_refuse or None
                effective = None          # AssertionError before anything was sent -> server error page
        else:
            # headers are on the wire already: the second call raises, the head stays that of call 1
            expect_close_after_head = True
    classes = ["kind:" + kind, "forbidden:%s" % (must_refuse or "no"), "restart:%s" % (("%s/%s%s" % (r["when"], r["exc_info"], "/caught" if rec and rec.get("restart_caught") else "")) if r else "no")]
    nontrivial = bool(must_refuse) or bool(r) or bool(forbidden(r["status"], r["headers"]) if r else None)
    head_end = data.find(b"\r\n\r\n")
    nstatus = len(re.findall(rb"(?:\A|\n)HTTP/1\.[01] \d{3}", data))
    if nstatus > 1:
        # (no generated body contains such a line; error pages echo hostile text HTML- and repr-escaped) a second status line at the start
        # of a line: an error page or another head spliced behind the first one
        V("one-head-per-response", "second-status-line-on-the-wire:" + kind, {"count": nstatus}, "exactly one response head")
        return Outcome(vio, True, classes, sample=_sample(case, data))
    if must_refuse:
        if data and not is_error_page(data):
            V("refused-before-any-byte", "forbidden-%s-reached-the-wire" % must_refuse, None,
              "nothing of the application's head on the wire (empty or one server error page)")
        return Outcome(vio, nontrivial, classes, sample=_sample(case, data))
    if effective is None:
        if data and not is_error_page(data):
            V("second-call-without-exc_info", "head-sent-despite-start_response-recall-error", None, "server error page")
        return Outcome(vio, nontrivial, classes, sample=_sample(case, data))
    status, headers = effective
    if not data or is_error_page(data):
        if plainly_valid(status, headers) and (not r or plainly_valid(case["status"], h1)):
            V("valid-accepted", "plainly-valid-head-refused", {"status": status, "headers": headers}, "head sent")
        classes.append("refused-nonforbidden")
        return Outcome(vio, nontrivial, classes, sample=_sample(case, data))
    if head_end < 0:
        V("head", "head-unterminated", None, "CRLFCRLF")
        return Outcome(vio, nontrivial, classes, sample=_sample(case, data))
    lines = data[:head_end].decode("latin-1").split("\r\n")
    acc, upgrade = accepted_lines(headers)
    exp_prefix = ["HTTP/%s %s" % (case["version"], status), "Server: gunicorn"]
    ok = lines[:2] == exp_prefix and len(lines) >= 4 and lines[2].startswith("Date: ")
    rest = lines[3:]
    conn_ok = bool(rest) and rest[0] in ("Connection: close", "Connection: keep-alive", "Connection: upgrade")
    if conn_ok and upgrade != (rest[0] == "Connection: upgrade"):
        conn_ok = False
    rest = rest[1:]
    if rest and rest[0] == "Transfer-Encoding: chunked":
        rest = rest[1:]
    if not ok or not conn_ok:
        V("server-lines", "server-lines-differ", {"lines": lines[:6]}, exp_prefix + ["Date: ...", "Connection: ..."])
    elif rest != acc:
        extra = [l for l in rest if l not in acc]
        missing = [l for l in acc if l not in rest]
        hop = [l for l in extra if l.split(":")[0].lower() in HOP]
        sig = "hop-by-hop-forwarded" if hop else ("extra-header-lines" if extra else ("header-lines-missing" if missing else "header-order"))
        V("one-line-per-accepted-header", sig, {"got": rest, "extra": extra, "missing": missing}, acc)
    return Outcome(vio, nontrivial, classes, sample=_sample(case, data))


def _sample(case, data):
    return {"status": case["status"], "headers": case["headers"], "restart": case.get("restart"), "kind": case["kind"],
            "wire_head": data[:300]}
