"""C05 Hostile or broken input is contained: error reply, no app call, worker lives — engine W."""
import re

from hypothesis import strategies as st

from vlib.common import Outcome, Violation
from vlib import gen_http, wenv, ref_request, ref_response, fixtures

PROPERTY = "C05"
RULE = ("byte streams (random bytes, obfuscating-grammar pipelines with mutations and truncations, and every repository request "
        "fixture truncated at every offset [quick: 1-in-8 stride]) x segmentation x fault script (recv -> ECONNRESET at call i, "
        "send -> EPIPE/ECONNRESET from call j) x worker class (sync, gthread, gevent, eventlet) x application input-reading mode; "
        "oracle: nothing escapes handle(); the wire is app-response* (error-response | truncated response)? with the error response "
        "a well-formed 4xx/5xx page marked Connection: close with exact Content-Length and last; application calls never exceed the "
        "requests whose head an independent RFC 9112 reader accepts; the socket is closed; the same worker then serves a fresh valid "
        "connection. non-trivial = rejected after at least one valid request-line byte, or a fault fired; distinct by case hash")
ASSUMPTIONS = [
    "the fake socket delivers EOF after the scripted bytes (client half-close) unless a reset is injected",
    "a trailing application call may lack a response when it raised or a send fault fired",
    "requests the reference tolerates (Transfer-Encoding without chunked) may be served",
]
BUDGET = {"quick": (16, 400), "thorough": (16, 30000)}

MARK = "X-Verif-App"
_fx = None


def fx():
    global _fx
    if _fx is None:
        _fx = fixtures.load_all()
    return _fx


def strategy(tier):
    return st.fixed_dictionaries({
        "stream": st.one_of(gen_http.stream(obfuscate=True), gen_http.stream(obfuscate=True),
                            st.binary(max_size=80).map(lambda b: b.decode("latin-1")),
                            st.text(alphabet=st.sampled_from(list("GET /HTP1.\r\n:abc \t\x00")), max_size=60)),
        "kind": st.sampled_from(list(wenv.KINDS)),
        "cuts": st.lists(st.integers(1, 400), max_size=3),
        "recv_fault": st.one_of(st.none(), st.tuples(st.integers(0, 4), st.sampled_from([104, 104, 32, 107, "T", "T"])).map(list)),
        "send_fault": st.one_of(st.none(), st.tuples(st.integers(0, 4), st.sampled_from([32, 104])).map(list)),
        "read_input": st.sampled_from(["none", "all", "some", "line"]),
        "keepalive": st.sampled_from([0, 2, 2]),
        "peer": st.sampled_from(["tcp4", "tcp4", "unix", "tcp6"]),
    })


def run_real(case):
    """engine R slice: hostile streams over real sockets (incl. abrupt resets) against one real worker per class: the worker pid
    must stay the same and keep serving; every reply is empty, an application response, or a well-formed error page"""
    import socket
    import struct
    from vlib import renv
    kind = case["kind"]
    # a small worker_connections: a connection slot that a hostile client manages to leak shows within one run
    srv = renv.Server(kind=kind, workers=1, bind="tcp", graceful=2, timeout=30, threads=2 if kind == "gthread" else None, keepalive=1,
                      extra=["--worker-connections", "6"])
    vio = []
    n = 0
    try:
        if not srv.wait_ready():
            return Outcome([], False, ["engine:R", "inconclusive:not-ready"])
        before = srv.workers()
        items = fx()
        step = case.get("stride", 97)
        k = case.get("offset", 0)
        for fi, (name, data) in enumerate(items):
            for off in sorted(set([len(data), (k + fi * step) % (len(data) + 1)] + ([len(data) // 2] if case.get("deep") else []) +
                                  ([0] if fi % 3 == 0 else []))):
                payload = data[:off]
                n += 1
                try:
                    c = srv.connect(3.0)
                except OSError as e:
                    vio.append(Violation("worker-lives", "C05/real:connect-failed-during-hostile-run", observed={"after": n, "error": str(e)}))
                    break
                try:
                    mode = (fi + off) % 3
                    if payload:
                        try:
                            c.sendall(payload)
                        except OSError:
                            pass
                    if mode == 0:
                        c.setsockopt(socket.SOL_SOCKET, socket.SO_LINGER, struct.pack("ii", 1, 0))    # RST on close
                        c.close()
                        continue
                    if mode == 1:
                        try:
                            c.shutdown(socket.SHUT_WR)
                        except OSError:
                            pass
                    reply, err = renv.read_all(c, 0.25 if mode == 2 else 4.0)
                finally:
                    try:
                        c.close()
                    except OSError:
                        pass
                if reply:
                    pos = 0
                    okwire = True
                    while pos < len(reply):
                        r = ref_response.parse_response(reply, pos, "GET")
                        if r is None or not r.ok or r.errors or (not r.complete and err is None):
                            okwire = False
                            break
                        if r.status == 100:
                            pos = r.end
                            continue
                        if not r.complete or r.end is None:
                            break
                        if r.status >= 400 and r.header(b"connection") != [b"close"] and not r.header(b"x-pid"):
                            okwire = False
                            break
                        pos = r.end
                    if not okwire:
                        vio.append(Violation("wire-grammar", "C05/real:malformed-reply",
                                             observed={"fixture": name, "offset": off, "reply": reply[:300], "kind": kind}, expected="well-formed responses"))
                        break
            if vio:
                break
        after = srv.workers()
        if not vio and after != before:
            vio.append(Violation("worker-lives", "C05/real:worker-replaced-during-hostile-run:" + kind,
                                 observed={"before": before, "after": after, "log_tail": srv.logtext()[-1500:]}, expected="same worker pid"))
        if not vio:
            r, data, err = srv.request("/pid", timeout=5)
            if r is None or not (r.ok and r.status == 200):
                vio.append(Violation("worker-lives", "C05/real:not-serving-after-hostile-run:" + kind, observed={"error": err}, expected="200"))
        return Outcome(vio, True, ["engine:R", "kind:" + kind], key="R|" + kind, sample={"case": case, "connections": n},
                       counts={"real-connections": n})
    finally:
        srv.cleanup()


def extra_cases(tier, seed, shard, nshards):
    for i, k in enumerate(wenv.KINDS):
        if (i + seed) % nshards == shard:
            yield {"engine": "R", "kind": k, "offset": seed * 13 + 5, "stride": 97, "deep": tier == "thorough"}
    stride = 8 if tier == "quick" else 1
    n = 0
    for fi, (name, data) in enumerate(fx()):
        for off in range(0, len(data) + 1):
            if (off + fi) % stride and off != len(data):
                continue
            n += 1
            if n % nshards != shard:
                continue
            k = off // stride + fi
            yield {"fixture": name, "offset": off, "kind": wenv.KINDS[k % 4], "cuts": [off // 2] if k % 3 == 0 else [],
                   "recv_fault": [k % 3, 104] if k % 7 == 0 else None,
                   "send_fault": [k % 2, 32] if k % 5 == 0 else None, "read_input": ("all", "none", "some")[(k // 4) % 3],
                   "keepalive": 2, "peer": ("tcp4", "unix", "tcp6")[k % 3]}


EXHAUSTIVE_NOTE = ("every repository request fixture (tests/requests/valid+invalid) truncated at every offset in the thorough tier "
                   "(1-in-8 offsets plus the full fixture in quick), worker class rotating with the offset")

ERR_HEAD = re.compile(rb"^HTTP/1\.1 ([45]\d\d) [A-Za-z ]+\r\nConnection: close\r\nContent-Type: text/html[^\r\n]*\r\nContent-Length: (\d+)\r\n\r\n")


def run_case(case):
    if case.get("engine") == "R":
        return run_real(case)
    if "fixture" in case:
        data = dict(fx())[case["fixture"]][:case["offset"]]
    else:
        data = case["stream"].encode("latin-1")
    kind = case["kind"]
    cfg = wenv.make_cfg(keepalive=case.get("keepalive", 2), worker_connections=10, threads=2)
    prog = {"status": "200 OK", "headers": [[MARK, "1"], ["Content-Length", "2"]], "mode": "list", "chunks": ["ok"],
            "read_input": case["read_input"]}
    app = wenv.AppProgram(prog)
    env = wenv.Env(kind, cfg, app)
    from vlib.penv import segment
    segs = segment(data, case["cuts"]) if data else []
    rf, sf = case.get("recv_fault"), case.get("send_fault")
    peer = {"tcp4": ("127.0.0.1", 50000), "unix": "", "tcp6": ("::1", 50000, 0, 0)}[case.get("peer", "tcp4")]
    if case.get("peer") == "unix":
        env.listener = wenv.FakeListener("/run/gunicorn.sock")       # what accept() and getsockname() give on an AF_UNIX listener
    sock = wenv.FakeSocket(segs, recv_fault=tuple(rf) if rf else None, send_fault=tuple(sf) if sf else None, peer=peer)
    vio = []
    classes = ["kind:" + kind, "peer:" + case.get("peer", "tcp4")]

    def V(clause, sig, observed=None, expected=None):
        vio.append(Violation(clause, "C05/" + sig, observed={"detail": observed, "peer": case.get("peer"), "stream": data[:600], "wire": sock.received()[:500],
                                                             "calls": len(app.calls), "kind": kind, "faults": [rf, sf]},
                             expected=expected))

    try:
        escaped = env.serve(sock)
    except wenv.HarnessWedge:
        V("no-wedge", "worker-spins-on-connection", None, "handle() returns")
        return Outcome(vio, True, classes)
    if escaped is not None:
        V("no-escape", "exception-escaped-handle:%s:%s" % (kind, type(escaped).__name__), repr(escaped), "handle() returns")
    wire = sock.received()
    fault_fired = bool(sock.recv_errors or sock.send_errors)
    # ---- wire grammar
    pos = 0
    app_responses = 0
    error_responses = 0
    if not vio:
        while pos < len(wire):
            m = ERR_HEAD.match(wire[pos:])
            resp = ref_response.parse_response(wire, pos, "GET")
            if m and resp is not None and resp.ok and not resp.header(MARK.encode()):
                n = int(m.group(2))
                body = wire[pos + m.end():]
                if len(body) != n:
                    if sock.send_errors:
                        break
                    V("error-response", "error-page-content-length-mismatch", {"declared": n, "got": len(body)},
                      "exactly Content-Length bytes, then nothing")
                    break
                error_responses += 1
                pos = len(wire)
                break
            if resp is None:
                break
            if resp.ok and resp.status == 100 and not resp.errors:
                pos = resp.end
                continue
            if resp.ok and not resp.errors and resp.header(MARK.encode()):
                if not resp.complete:
                    if not (sock.send_errors or (app.calls and app.calls[-1]["raised"])):
                        V("wire-grammar", "truncated-app-response-without-fault", resp.brief(), "complete response")
                    pos = len(wire)
                    break
                app_responses += 1
                pos = resp.end
                continue
            if sock.send_errors:
                break           # a torn write: whatever partial bytes went out before the fault
            V("wire-grammar", "unexpected-bytes-on-wire:%s" % ((resp.errors[:1] or ["not-app-not-error-page"])[0].split(":")[0]),
              {"at": pos, "bytes": wire[pos:pos + 200]}, "app-response* (error-response)?")
            break
    # ---- application calls vs the reference's reading of the stream
    if not vio:
        max_calls = 0
        p = 0
        while True:
            ref = ref_request.parse_request(data, p)
            if ref.kind == "ok":
                max_calls += 1
                p = ref.end
                continue
            if ref.kind in ("tolerated_close", "body_reject", "body_incomplete"):
                max_calls += 1
            last_ref = ref
            break
        classes.append("ref-stop:" + last_ref.kind + (":" + last_ref.cls if last_ref.cls else ""))
        if len(app.calls) > max_calls:
            V("rejected-never-reaches-app", "application-called-for-rejected-request:%s" % (last_ref.cls or last_ref.kind),
              {"calls": len(app.calls), "reference_accepts": max_calls, "ref": repr(last_ref)}, "no application call")
        trailing_ok = 0
        if app.calls and (app.calls[-1]["raised"] or sock.send_errors or sock.recv_errors):
            trailing_ok = 1
        if not vio and not (app_responses <= len(app.calls) <= app_responses + trailing_ok + (1 if sock.send_errors else 0)):
            V("one-response-per-call", "calls-%d-responses-%d" % (min(len(app.calls), 3), min(app_responses, 3)),
              {"calls": len(app.calls), "app_responses": app_responses, "raised": [c["raised"] for c in app.calls]},
              "every completed call has its response")
    if not vio and not sock.closed:
        V("closed", "connection-left-open:" + kind, None, "socket closed")
    # ---- the same worker serves the next connection
    if not vio:
        if not env.worker.alive:
            V("worker-lives", "worker-not-alive-after-connection", None, "alive")
        else:
            app2 = wenv.AppProgram(dict(prog, read_input="none"))
            env.worker.wsgi = app2
            s2 = wenv.FakeSocket([b"GET /again HTTP/1.1\r\nHost: h\r\nConnection: close\r\n\r\n"], peer=peer)
            try:
                esc2 = env.serve(s2)
            except wenv.HarnessWedge:
                esc2 = "wedge"
            r2 = ref_response.parse_response(s2.received(), 0, "GET")
            if esc2 is not None or r2 is None or not r2.ok or r2.status != 200 or r2.body != b"ok" or len(app2.calls) != 1:
                V("worker-lives", "next-connection-not-served", {"escaped": repr(esc2), "wire": s2.received()[:200]}, "200 ok")
    valid_first = bool(re.match(rb"^[A-Z]", data))
    rejected = error_responses > 0 or (len(app.calls) == 0 and len(data) > 0)
    nontrivial = fault_fired or (valid_first and rejected)
    classes += ["app-responses:%d" % min(app_responses, 3), "error-responses:%d" % error_responses, "fault:%s" % fault_fired,
                "src:" + ("fixture" if "fixture" in case else "generated")]
    return Outcome(vio, nontrivial, classes,
                   sample={"stream": data[:300], "kind": kind, "faults": [rf, sf], "wire_head": wire[:120], "calls": len(app.calls),
                           "fixture": case.get("fixture"), "offset": case.get("offset")})
