"""C06 Parsing does not depend on how bytes are split across reads — metamorphic over segmentations."""
from hypothesis import strategies as st

from vlib.common import Outcome, Violation
from vlib import gen_http, penv

PROPERTY = "C06"
RULE = ("streams from the obfuscating and the conforming generators (pipelines, chunked bodies, truncations, mutations) x "
        "parser configs incl. small limit_request_* values (one with a 412-byte head/trailer cap and more pipelined bytes than that behind a chunked request); each stream is fed as <=8192-byte blocks (baseline) and under: "
        "every single cut position (exhaustive up to 400 bytes, sampled above), byte-by-byte, line-wise, around every CR/LF, "
        "drawn multi-cuts and drawn 2-cuts (thorough: all 2-cuts for streams <=90 bytes); oracle: identical observation list "
        "(method, target, version, headers, body bytes, body error class, trailers, end offset) and terminal outcome class. "
        "Plus every truncation of 5 conforming pipelines under the same feeds, and a real-socket slice (4 requests on one keep-alive "
        "connection per worker class, written whole or in pieces with pauses: same responses). "
        "non-trivial = the baseline yields a request or rejects after the first line, and >=10 segmentations were compared")
ASSUMPTIONS = [
    "reads are non-empty and at most 8192 bytes (the quantifier); the baseline is the 8192-byte block feed",
    "exception messages are not compared (LimitRequestLine embeds a buffered length), only exception classes",
]
BUDGET = {"quick": (16, 300), "thorough": (16, 4000)}

CFGS = [
    {},
    {"limit_request_line": 40},
    {"limit_request_fields": 3},
    {"limit_request_field_size": 30},
    {"limit_request_fields": 2, "limit_request_field_size": 20, "limit_request_line": 30},
    {"limit_request_line": 0, "limit_request_field_size": 0},
    {"header_map": "refuse"},
    {"proxy_protocol": True},
    {"limit_request_fields": 4, "limit_request_field_size": 100},
]
_cfgs = {}


def cfg_for(i):
    if i not in _cfgs:
        _cfgs[i] = penv.make_cfg(**CFGS[i])
    return _cfgs[i]


@st.composite
def conforming_pipeline(draw):
    n = draw(st.integers(1, 3))
    return "".join(draw(gen_http.conforming_request())["raw"] for _ in range(n))


@st.composite
def padded(draw):
    """requests sized around the limits / with bodies larger than the header buffer caps"""
    hdrs = "".join("X-%d: %s\r\n" % (i, "v" * draw(st.integers(0, 40))) for i in range(draw(st.integers(0, 5))))
    target = "/" + "a" * draw(st.integers(0, 60))
    blen = draw(st.sampled_from([0, 5, 100, 600, 3000, 9000]))
    body = ("b" * 99 + "\n") * (blen // 100 + 1)
    body = body[:blen]
    nxt = draw(st.sampled_from(["", "GET /n HTTP/1.1\r\n\r\n"]))
    if draw(st.integers(0, 3)) == 0:
        # chunked with long size lines / extensions / trailers (sizes around 1024 and 8192)
        ext = draw(st.sampled_from(["", ";e=" + "x" * 1020, ";e=" + "x" * 1030, ";" + "y" * 3000, ";" + "y" * 8200,
                                    # the whole size line ("5" + extension) one under / exactly at / one over the 8190-byte cap
                                    ";" + "y" * 8187, ";" + "y" * 8188, ";" + "y" * 8189]))
        tr = draw(st.sampled_from(["", "X-T: " + "t" * 1030 + "\r\n", "X-T: " + "t" * 9000 + "\r\n"]))
        z = draw(st.sampled_from(["0", "0" * 1030]))
        return "POST %s HTTP/1.1\r\n%sTransfer-Encoding: chunked\r\n\r\n5%s\r\nhello\r\n%s\r\n%s\r\n%s" % (
            target, hdrs, ext, z, tr, nxt)
    return "POST %s HTTP/1.1\r\n%sContent-Length: %d\r\n\r\n%s" % (target, hdrs, blen, body) + nxt


@st.composite
def proxied(draw):
    """a PROXY protocol v1 line (short, long-but-valid, garbage) in front of a conforming pipeline; proxy_protocol is on (config 7)"""
    full = "2001:0db8:0000:0000:0000:0000:0000:%04x"
    line = draw(st.sampled_from([
        "PROXY TCP4 192.0.2.1 192.0.2.2 1111 80",
        "PROXY TCP6 %s %s 00000065535 00000000080" % (full % 1, full % 2),            # 114 bytes, valid for the PROXY parser
        "PROXY TCP6 %s %s 65535 80" % (full % 1, full % 2),
        "PROXY UNKNOWN",
        "PROXY TCP4 " + "9" * 120,
        "PROXY  TCP4 192.0.2.1 192.0.2.2 1111 80",
    ]))
    n = draw(st.integers(1, 2))
    return {"stream": line + "\r\n" + "".join(draw(gen_http.conforming_request())["raw"] for _ in range(n)), "cfg": 7}


@st.composite
def small_cap_pipeline(draw):
    """config 8 (head / trailer cap 4*(100+2)+4 = 412 bytes): a chunked request within the limits followed, on the same connection, by
    more pipelined bytes than that cap: caps derived from the limits count the section they protect, not what arrived behind it"""
    tr = draw(st.sampled_from(["", "X-T: v\r\n", "X-T: %s\r\nX-U: u\r\n" % ("t" * 60)]))
    z = draw(st.sampled_from(["0", "0", "000", "0;a=b"]))
    first = "POST /a HTTP/1.1\r\nHost: h\r\nTransfer-Encoding: chunked\r\n\r\n%s\r\n%s\r\n" % (
        draw(st.sampled_from(["5\r\nhello\r\n", "5;e=1\r\nhello\r\n6\r\n world\r\n", ""])) + z, tr)
    blen = draw(st.sampled_from([0, 300, 600, 3000, 7000]))
    follow = draw(st.sampled_from([
        "POST /b HTTP/1.1\r\nContent-Length: %d\r\n\r\n%s" % (blen, ("b" * 99 + "\n") * (blen // 100)),
        "GET /n HTTP/1.1\r\nHost: h\r\n\r\n" * draw(st.sampled_from([1, 20, 60])),
    ]))
    return {"stream": first + follow, "cfg": 8}


@st.composite
def at_limit(draw):
    """request whose request line / one field sits exactly at, one under or one over the configured limit of its config"""
    ci = draw(st.sampled_from([1, 3, 4]))
    c = CFGS[ci]
    d = draw(st.sampled_from([-1, 0, 0, 1]))
    line_limit = c.get("limit_request_line", 4094)
    field_limit = c.get("limit_request_field_size", 8190)
    which = draw(st.sampled_from(["line", "field"]))
    target = "/"
    hdr = "X-A: v\r\n"
    if which == "line" or "limit_request_field_size" not in c:
        n = line_limit + d - len("GET  HTTP/1.1")
        target = "/" + "a" * max(0, n - 1)
    else:
        n = field_limit + d - 2 - len("X-A: ")       # the limit counts the line with its CRLF
        hdr = "X-A: " + "v" * max(0, n) + "\r\n"
    tail = draw(st.sampled_from(["", "GET /n HTTP/1.1\r\n\r\n"]))
    return {"stream": "GET %s HTTP/1.1\r\n%s\r\n%s" % (target, hdr, tail), "cfg": ci}


def strategy(tier):
    common = {
        "multi": st.lists(st.lists(st.integers(0, 20000), min_size=2, max_size=12), min_size=2, max_size=6),
        "pairs": st.lists(st.tuples(st.integers(0, 20000), st.integers(0, 20000)), min_size=5, max_size=30).map(
            lambda l: [list(x) for x in l]),
        "all_pairs": st.just(tier == "thorough"),
    }
    lim = st.tuples(at_limit(), st.fixed_dictionaries(common)).map(lambda t: dict(t[1], **t[0]))
    prox = st.tuples(proxied(), st.fixed_dictionaries(common)).map(lambda t: dict(t[1], **t[0]))
    small = st.tuples(small_cap_pipeline(), st.fixed_dictionaries(common)).map(lambda t: dict(t[1], **t[0]))
    return st.one_of(_general(tier), _general(tier), _general(tier), _general(tier), lim, lim, prox, small)


def _general(tier):
    return st.fixed_dictionaries({
        "stream": st.one_of(gen_http.stream(obfuscate=True), conforming_pipeline(), padded()),
        "cfg": st.sampled_from([0, 0, 0, 1, 2, 3, 4, 5, 6]),
        "multi": st.lists(st.lists(st.integers(0, 20000), min_size=2, max_size=12), min_size=2, max_size=6),
        "pairs": st.lists(st.tuples(st.integers(0, 20000), st.integers(0, 20000)), min_size=5, max_size=30).map(
            lambda l: [list(x) for x in l]),
        "all_pairs": st.just(tier == "thorough"),
    })


BASES = [
    "POST /one HTTP/1.1\r\nHost: a\r\nTransfer-Encoding: chunked\r\n\r\nb\r\nhello world\r\n0\r\n\r\nGET /two HTTP/1.1\r\nHost: a\r\n\r\n",
    "POST /one HTTP/1.1\r\nHost: a\r\nTransfer-Encoding: chunked\r\n\r\nb\r\nhello world\r\n0\r\nVary: *\r\n\r\nGET /two HTTP/1.1\r\nHost: a\r\n\r\n",
    "POST /one HTTP/1.1\r\nHost: a\r\nTransfer-Encoding: chunked\r\n\r\n5;x=y\r\nhello\r\n6\r\n world\r\n0;z\r\nX-A: 1\r\nX-B: 2\r\n\r\nPOST /two HTTP/1.1\r\nContent-Length: 3\r\n\r\nabc",
    "POST /one HTTP/1.1\r\nHost: a\r\nContent-Length: 11\r\n\r\nhello world" + "GET /two HTTP/1.0\r\nConnection: keep-alive\r\n\r\n",
    "PUT /one HTTP/1.1\r\nContent-Length: 0\r\nX-Long: " + "v" * 70 + "\r\n\r\nGET /two HTTP/1.1\r\n\r\n",
]


def extra_cases(tier, seed, shard, nshards):
    """every prefix of a few conforming pipelines (the peer goes away at that byte), each under all the segmentations of run_case;
    and a real-socket slice: the same requests written to a real worker in one piece or in pieces with pauses"""
    n = 0
    for b in BASES:
        for cut in range(1, len(b) + 1):
            for cfg in ((0,) if tier == "quick" else (0, 4, 6)):
                n += 1
                if n % nshards == shard:
                    yield {"stream": b[:cut], "cfg": cfg, "multi": [[cut // 2, cut - 1], [cut - 2, cut - 1, cut - 3]], "pairs": [[cut - 1, cut - 2], [cut - 3, cut - 5]],
                           "all_pairs": False}
    for i, k in enumerate(["sync", "gthread", "gevent", "eventlet"]):
        if (i + seed) % nshards == shard:
            yield {"engine": "R", "kind": k, "pause": 0.04, "rseed": seed}


EXHAUSTIVE_NOTE = ("every prefix (truncation at every byte) of %d conforming pipelines (chunked with and without trailers / extensions, "
                   "Content-Length, empty body) is compared under all single cuts, byte-wise, line-wise and multi-cut feeds; the real-socket "
                   "slice runs once per worker class" % len(BASES))

REAL_REQUESTS = [
    b"GET /echo/a?i=1 HTTP/1.1\r\nHost: x\r\nX-Long: " + b"h" * 40 + b"\r\n\r\n",
    b"POST /echo/b HTTP/1.1\r\nHost: x\r\nContent-Length: 26\r\n\r\nabcdefghijklmnopqrstuvwxyz",
    b"POST /echo/c HTTP/1.1\r\nHost: x\r\nTransfer-Encoding: chunked\r\n\r\n5\r\nhello\r\n6;e=1\r\n world\r\n0\r\nX-T: 1\r\n\r\n",
    b"PUT /echo/d HTTP/1.1\r\nHost: x\r\nContent-Length: 3000\r\n\r\n" + b"z" * 3000,
]


def run_real(case):
    """engine R: one keep-alive connection per segmentation; every request is written whole, or cut at a few places with a pause
    between the pieces (so that each piece is a network read of its own): the responses must be the same"""
    import hashlib
    import time
    from vlib import renv, ref_response
    kind = case["kind"]
    srv = renv.Server(kind=kind, workers=1, bind="tcp", graceful=2, timeout=30, threads=2 if kind == "gthread" else None, keepalive=5)
    vio = []
    counts = {"real-feeds": 0}

    def exchange(c, raw, cuts):
        pieces = [raw[a:b] for a, b in zip([0] + cuts, cuts + [len(raw)])]
        for j, pc in enumerate(pieces):
            if j:
                time.sleep(case.get("pause", 0.04))
            c.sendall(pc)
        c.settimeout(5.0)
        data = b""
        while True:
            r = ref_response.parse_response(data, 0, "GET") if data else None
            if r is not None and r.ok and r.complete:
                return r.status, r.body
            try:
                d = c.recv(65536)
            except OSError as e:
                return "error:%s" % type(e).__name__, data
            if not d:
                return "closed", data
            data += d

    try:
        if not srv.wait_ready():
            return Outcome([], False, ["engine:R", "inconclusive:not-ready"])
        expected = None
        h = int(hashlib.sha1(("%s|%s" % (kind, case.get("rseed", 0))).encode()).hexdigest()[:6], 16)
        variants = [("whole", lambda raw, i: [])]
        for v in range(6):
            variants.append(("cut-%d" % v, lambda raw, i, v=v: sorted(set([1 + (h + 7 * v + 13 * i) % (len(raw) - 1)]))))
        variants.append(("in-terminator", lambda raw, i: [raw.index(b"\r\n\r\n") + 2]))
        variants.append(("after-head", lambda raw, i: [raw.index(b"\r\n\r\n") + 4] if raw.index(b"\r\n\r\n") + 4 < len(raw) else [len(raw) - 1]))
        variants.append(("three-pieces", lambda raw, i: sorted(set([len(raw) // 3, 2 * len(raw) // 3]))))
        variants.append(("after-request-line", lambda raw, i: [raw.index(b"\r\n") + 2]))
        for name, cutter in variants:
            c = srv.connect(5.0)
            got = []
            try:
                for i, raw in enumerate(REAL_REQUESTS):
                    if kind == "sync" and i:          # the sync worker serves one request per connection
                        c.close()
                        c = srv.connect(5.0)
                    got.append(exchange(c, raw, cutter(raw, i)))
                    counts["real-feeds"] += 1
                    if not isinstance(got[-1][0], int):
                        break
            finally:
                c.close()
            norm_got = [(st, body.split(b" x=")[0] if isinstance(body, bytes) else body) for st, body in got]
            if expected is None:
                expected = norm_got
                if any(st != 200 for st, _ in norm_got):
                    vio.append(Violation("segmentation-independence", "C06/real:whole-requests-not-served:" + kind,
                                         observed={"got": [(st, b[:80]) for st, b in got]}, expected="200 x %d" % len(REAL_REQUESTS)))
                    break
            elif norm_got != expected:
                k = min([i for i, (a, b) in enumerate(zip(norm_got, expected)) if a != b] or [len(norm_got)])
                vio.append(Violation("segmentation-independence", "C06/real:response-depends-on-segmentation:%s:request-%d" % (kind, k + 1),
                                     observed={"segmentation": name, "got": [(st, b[:80]) for st, b in got], "log_tail": srv.logtext()[-600:]},
                                     expected=[(st, b[:80]) for st, b in expected]))
                break
        return Outcome(vio, True, ["engine:R", "kind:" + kind], key="R|" + kind, counts=counts, sample={"case": case, "variants": len(variants)})
    finally:
        srv.cleanup()


def norm(obs):
    reqs, terminal = obs
    return ([(r["method"], r["uri"], r["version"], tuple(r["headers"]), r["body"], r["body_error"],
              tuple(r["trailers"]), r["end"] if r["body_error"] is None else None) for r in reqs], terminal)


def blocks(n, size=8192):
    return list(range(size, n, size))


def run_case(case):
    if case.get("engine") == "R":
        return run_real(case)
    stream = case["stream"].encode("latin-1")
    cfg = cfg_for(case["cfg"])
    n = len(stream)
    base = norm(penv.observe(stream, blocks(n), cfg))
    segs = []
    if n <= 400:
        segs += [("1cut", [i]) for i in range(1, n)]
    else:
        step = max(1, n // 150)
        segs += [("1cut", [i]) for i in range(1, n, step)]
        segs += [("1cut", [i]) for i in range(max(1, n - 40), n)] + [("1cut", [i]) for i in range(1, min(n, 200))]
    if n <= 3000:
        segs.append(("bytewise", list(range(1, n))))
    nl = [i + 1 for i in range(n) if stream[i] in (10, 13)]
    segs.append(("after-crlf-bytes", nl))
    segs.append(("before-crlf-bytes", [i - 1 for i in nl]))
    segs.append(("linewise", [i + 1 for i in range(n) if stream[i] == 10]))
    for m in case["multi"]:
        segs.append(("multi", [x % (n + 1) for x in m]))
    for a, b in case["pairs"]:
        segs.append(("2cut", [a % (n + 1), b % (n + 1)]))
    if case.get("all_pairs") and n <= 90:
        segs += [("2cut", [i, j]) for i in range(1, n) for j in range(i + 1, n)]
    vio = []
    counts = {}
    for kind, cuts in segs:
        cuts = _cap(cuts, n)
        counts["feeds:" + kind] = counts.get("feeds:" + kind, 0) + 1
        got = norm(penv.observe(stream, cuts, cfg))
        if got != base:
            vio.append(Violation("segmentation-independence", _sig(base, got),
                                 observed={"cuts": cuts[:20], "kind": kind, "got": _brief(got)},
                                 expected={"blockwise": _brief(base)}))
            break
    nontrivial = (len(base[0]) > 0 or base[1].startswith("exc")) and len(segs) >= 10
    classes = ["cfg:%d" % case["cfg"], "base-yield:%d" % min(len(base[0]), 3), "base-terminal:" + base[1].split(":")[0],
               "len>400:%s" % (n > 400)]
    return Outcome(vio, nontrivial, classes, counts=counts,
                   sample={"stream": case["stream"], "cfg": CFGS[case["cfg"]], "segmentations": len(segs),
                           "baseline": {"requests": len(base[0]), "terminal": base[1]}})


def _cap(cuts, n):
    """keep every read <= 8192 bytes"""
    pts = sorted(set(c for c in cuts if 0 < c < n))
    out = []
    prev = 0
    for c in pts + [n]:
        while c - prev > 8192:
            prev += 8192
            out.append(prev)
        if c < n:
            out.append(c)
        prev = c
    return out


def _sig(base, got):
    bt, gt = base[1], got[1]
    if len(base[0]) != len(got[0]) or bt != gt:
        names = sorted(set([bt, gt]))
        return "C06/outcome-differs:%s" % "|".join(names)
    for a, b in zip(base[0], got[0]):
        for i, f in enumerate(("method", "uri", "version", "headers", "body", "body_error", "trailers", "end")):
            if a[i] != b[i]:
                return "C06/field-differs:" + f
    return "C06/differs"


def _brief(o):
    return {"terminal": o[1], "requests": [{"method": r[0], "uri": r[1][:80], "headers": list(r[3])[:8], "body_len": len(r[4]),
                                            "body_head": r[4][:60], "body_error": r[5], "trailers": list(r[6]), "end": r[7]}
                                           for r in o[0]]}
