"""C12 Request-head limits are enforced and parser buffering is bounded — engine P."""
import itertools

from hypothesis import strategies as st

from vlib.common import Outcome, Violation
from vlib import penv
from gunicorn.http import RequestParser

PROPERTY = "C12"
RULE = ("(A) limit configs (limit_request_line / fields / field_size incl. 0 and boundary values) x requests built to sit "
        "d in -4..+4 bytes/fields from each limit (plain and underscore-named fields, with body, pipelined successor, optionally after an accepted keep-alive request and 0-2 stray empty lines, under a "
        "drawn segmentation); oracle: over => never yielded, within all limits => no Limit* rejection, 2-byte band where the "
        "documented 'size' may or may not include CRLF. (B) enumerated endless metered sources that never send the "
        "delimiter awaited in request line / header line / header block / chunk-size line / chunk extension / trailer "
        "line / trailer block / PROXY line, x configs x block sizes; oracle: the parser raises before consuming "
        "B(cfg) = 2*(limit_request_line + max_buffer_headers) + 64 KiB (sources include tails made only of CR or only of LF bytes). (C) real "
        "workers of every class: a client trickles an endless request line / header line / header block in 256-byte pieces 5 ms apart, as "
        "first or second request of a connection: a reply or a close must come before B(cfg) bytes were sent. non-trivial = some size within 3 of its limit, or an "
        "endless source; distinct by case hash")
ASSUMPTIONS = [
    "0 = unlimited settings exempt the item they unlimit from the bound (limit_request_line=0 -> request/PROXY line)",
    "sizes inside the 2-byte band (size counted with or without CRLF) may go either way",
    "configs for endless sources keep limit_request_fields <= 100 so that B(cfg) stays below 2 MiB",
]
BUDGET = {"quick": (16, 600), "thorough": (16, 20000)}

LINE = [0, 1, 16, 17, 40, 64, 100, 4094, 8190, 9000]
FIELDS = [0, 1, 2, 3, 5, 100, 101, 40000]
FSIZE = [0, 1, 8, 20, 30, 64, 200, 8190]


def strategy(tier):
    return st.fixed_dictionaries({
        "kind": st.just("limits"),
        "line": st.sampled_from(LINE), "fields": st.sampled_from(FIELDS), "fsize": st.sampled_from(FSIZE),
        "dline": st.one_of(st.integers(-4, 4), st.integers(-40, 40), st.none()),
        "dfields": st.one_of(st.integers(-3, 3), st.none()),
        "dfsize": st.one_of(st.integers(-4, 4), st.none()),
        "big_at": st.integers(0, 200),
        "underscore": st.sampled_from([0, 0, 1, 2, 3]),    # 0 none | 1 the big field | 2 all filler fields | 3 every second
        "header_map": st.sampled_from(["drop", "drop", "refuse"]),
        "body": st.sampled_from([0, 0, 10, 3000]),
        "next": st.booleans(),
        "cuts": st.lists(st.integers(1, 12000), max_size=6),
        # a read boundary exactly at / inside the CRLF that ends the request line or the head
        "bcut": st.sampled_from([None, None, "rl-1", "rl", "rl+1", "rl+2", "head-3", "head-2", "head-1", "head"]),
        "proxy": st.sampled_from([False, False, True]),
        # the measured request is not the first on its connection: an accepted keep-alive request (and stray empty lines) precede it
        "prior": st.sampled_from([None, None, None, "", "\r\n", "\r\n\r\n"]),
    })


def eff_limits(case):
    line = case["line"]
    if line < 0 or line >= 8190:
        line = 8190
    fields = case["fields"]
    if fields <= 0 or fields > 32768:
        fields = 32768
    return line, fields, case["fsize"]


def build_limits(case):
    line, fields, fsize = eff_limits(case)
    # request line
    base = "GET / HTTP/1.1"
    if case["dline"] is None or line == 0:
        L = len(base) + 5
    else:
        L = max(len(base), line + case["dline"])
    target = "/" + "a" * (L - len(base))
    rl = "GET %s HTTP/1.1" % target
    # header fields
    if case["dfields"] is None:
        nf = min(3, fields)
    else:
        nf = max(0, min(fields + case["dfields"], 400))
    lines = []
    for i in range(nf):
        name = "X-%d" % i
        if case["underscore"] == 2 or (case["underscore"] == 3 and i % 2):
            name = "X_%d" % i
        lines.append(name + ": v")
    big = None
    if nf and case["dfsize"] is not None and fsize > 0:
        F = max(6, fsize + case["dfsize"])
        i = case["big_at"] % nf
        name = "X_Big" if case["underscore"] == 1 else "X-Big"
        lines[i] = name + ": " + "b" * (F - len(name) - 2)
        big = len(lines[i])
    blen = case["body"]
    if blen and nf < fields and nf < 400:
        lines.append("Content-Length: %d" % blen)
        nf += 1
    else:
        blen = 0
    raw = rl + "\r\n" + "".join(l + "\r\n" for l in lines) + "\r\n" + "z" * blen
    if case["next"]:
        raw += "GET /n HTTP/1.1\r\n\r\n"
    maxf = max([len(l) for l in lines] or [0])
    return raw.encode("latin-1"), {"L": len(rl), "nf": nf, "maxF": maxf, "has_underscore": any("_" in l.split(":")[0] for l in lines)}


def run_case(case):
    if case["kind"] == "real":
        return run_real(dict(case, kind=case["wkind"]))
    if case["kind"] == "endless":
        return run_endless(case)
    if case["kind"] == "trailers":
        return run_trailers(case)
    stream, m = build_limits(case)
    line, fields, fsize = eff_limits(case)
    cfg = penv.make_cfg(limit_request_line=case["line"], limit_request_fields=case["fields"],
                        limit_request_field_size=case["fsize"], header_map=case["header_map"], proxy_protocol=bool(case.get("proxy")))
    pline = b""
    if case.get("proxy"):
        # a (valid, allowed) PROXY v1 line in front: the limits apply to the request line that follows it just the same
        pline = b"PROXY TCP4 192.0.2.1 192.0.2.2 1111 80\r\n"
        if line == 0 or len(pline) - 2 <= line:
            stream = pline + stream
        else:
            pline = b""
    prior = case.get("prior")
    plen = 0
    if prior is not None and not pline:
        pre = b"GET /p HTTP/1.1\r\nHost: x\r\n\r\n" + prior.encode()
        if (line == 0 or 15 <= line) and fields >= 1 and (fsize == 0 or fsize >= 9):
            stream = pre + stream
            plen = len(pre)
        else:
            prior = None
    else:
        prior = None
    cuts = list(case["cuts"])
    if case.get("bcut"):
        head_end = stream.find(b"\r\n\r\n", plen) + 4
        m = dict(m, L=m["L"] + len(pline) + plen)
        base, _, d = case["bcut"].partition("+") if "+" in case["bcut"] else (case["bcut"].partition("-")[0], "", "-" + case["bcut"].partition("-")[2] if "-" in case["bcut"] else "0")
        off = (m["L"] if base == "rl" else head_end) + int(d or 0)
        cuts.append(off)
        if case.get("big_at", 0) % 2:
            cuts = [off]                 # sometimes the boundary cut is the only one
    reqs, terminal = penv.observe(stream, penv_cap(cuts, len(stream)), cfg)
    if pline or plen:
        m = dict(m, L=m["L"] - len(pline) - plen) if case.get("bcut") else m
    over = []
    band = []
    if line > 0:
        if m["L"] > line:
            over.append("line")
        elif m["L"] + 2 > line:
            band.append("line")
    if m["nf"] > fields:
        over.append("fields")
    if fsize > 0:
        if m["maxF"] > fsize:
            over.append("field_size")
        elif m["maxF"] + 2 > fsize:
            band.append("field_size")
    vio = []
    ours = [r for r in reqs if r["uri"] not in ("/n", "/p")]
    first_is_ours = bool(ours)
    if over:
        if first_is_ours:
            vio.append(Violation("over-limit-rejected", "C12/over-limit-accepted:" + "+".join(over) +
                                 (":underscore" if m["has_underscore"] else ""),
                                 observed={"yielded": len(reqs), "terminal": terminal, "measures": m},
                                 expected="rejected: over " + ",".join(over)))
    elif not band:
        refused_underscore = case["header_map"] == "refuse" and m["has_underscore"]
        if terminal.startswith("exc:Limit"):
            vio.append(Violation("within-limits-accepted", "C12/within-limits-rejected:" + terminal[4:],
                                 observed={"terminal": terminal, "measures": m, "limits": [line, fields, fsize]},
                                 expected="not rejected for size"))
        elif not ours and not refused_underscore and not prior:
            vio.append(Violation("within-limits-accepted", "C12/within-limits-not-yielded:" + terminal,
                                 observed={"terminal": terminal, "measures": m}, expected="request yielded"))
    near = (line > 0 and abs(m["L"] - line) <= 3) or abs(m["nf"] - fields) <= 3 or (fsize > 0 and abs(m["maxF"] - fsize) <= 3)
    classes = ["proxy:%s" % bool(pline), "prior:%s" % ("none" if prior is None else "request+%d-empty-lines" % (len(prior) // 2)), "over:" + ("+".join(over) or "none"), "band:" + ("+".join(band) or "none"),
               "underscore:%s" % m["has_underscore"], "terminal:" + terminal.split(":")[-1]]
    return Outcome(vio, near, classes,
                   sample={"limits": [case["line"], case["fields"], case["fsize"]], "measures": m, "over": over, "band": band,
                           "yielded": len(reqs), "terminal": terminal, "cuts": case["cuts"]})


def penv_cap(cuts, n):
    pts = sorted(set(c for c in cuts if 0 < c < n))
    out = []
    prev = 0
    for c in pts + [n]:
        while c - prev > 8192:
            prev += 8192
            out.append(prev)
        if c < n:
            out.append(c)
        prev = c
    return out


# ------------------------------------------------------------------ endless sources

ENDLESS = {
    # name: (prefix, repeating unit, needs_body_read, exempt_if)
    "request-line": (b"GET /", b"a" * 64, False, "line0"),
    "request-line-spaces": (b"GET / ", b"HTTP/1.1 " * 8, False, "line0"),
    "proxy-line": (b"PROXY TCP4 ", b"1" * 64, False, "line0"),
    "request-line-after-proxy": (b"PROXY TCP4 192.0.2.1 192.0.2.2 1111 80\r\nGET /", b"a" * 64, False, "line0"),
    "second-request-line": (b"GET /1 HTTP/1.1\r\nHost: x\r\n\r\nGET /", b"a" * 64, False, "line0"),
    "second-request-line-after-empty-line": (b"GET /1 HTTP/1.1\r\nHost: x\r\n\r\n\r\nGET /", b"a" * 64, False, "line0"),
    "second-request-line-after-body": (b"POST /1 HTTP/1.1\r\nContent-Length: 3\r\n\r\nabc\r\n\r\nGET /", b"a" * 64, False, "line0"),
    "second-header-line": (b"GET /1 HTTP/1.1\r\nHost: x\r\n\r\nGET /2 HTTP/1.1\r\nX-A: ", b"v" * 64, False, None),
    "header-line": (b"GET / HTTP/1.1\r\nX-A: ", b"v" * 64, False, None),
    "header-name": (b"GET / HTTP/1.1\r\n", b"N" * 64, False, None),
    "header-block": (b"GET / HTTP/1.1\r\n", b"X-A: v\r\n" * 8, False, None),
    "header-block-underscore": (b"GET / HTTP/1.1\r\n", b"X_A: v\r\n" * 8, False, None),
    "header-cr-only": (b"GET / HTTP/1.1\r\n", b"X-A: v\r" * 8, False, None),
    # an unterminated tail made of nothing but CR (or LF, or CR LF CR without the final LF... ) bytes
    "header-cr-run": (b"GET / HTTP/1.1\r\nHost: a", b"\r" * 64, False, None),
    "header-lf-run": (b"GET / HTTP/1.1\r\nHost: a", b"\n" * 64, False, None),
    "header-cr-run-after-crlf": (b"GET / HTTP/1.1\r\nHost: a\r\n", b"\r" * 64, False, None),
    "request-line-cr-run": (b"GET /", b"\r" * 64, False, "line0"),
    "trailer-cr-run": (b"POST / HTTP/1.1\r\nTransfer-Encoding: chunked\r\n\r\n0\r\nX-T: v", b"\r" * 64, True, None),
    "chunk-size-cr-run": (b"POST / HTTP/1.1\r\nTransfer-Encoding: chunked\r\n\r\n5", b"\r" * 64, True, None),
    "chunk-size-digits": (b"POST / HTTP/1.1\r\nTransfer-Encoding: chunked\r\n\r\n1", b"0" * 64, True, None),
    "chunk-size-zeros": (b"POST / HTTP/1.1\r\nTransfer-Encoding: chunked\r\n\r\n", b"0" * 64, True, None),
    "chunk-ext": (b"POST / HTTP/1.1\r\nTransfer-Encoding: chunked\r\n\r\n5;", b"e" * 64, True, None),
    "chunk-ext-after-data": (b"POST / HTTP/1.1\r\nTransfer-Encoding: chunked\r\n\r\n1\r\nx\r\n2;a=", b"e" * 64, True, None),
    "trailer-line": (b"POST / HTTP/1.1\r\nTransfer-Encoding: chunked\r\n\r\n0\r\nX-T: ", b"t" * 64, True, None),
    "trailer-block": (b"POST / HTTP/1.1\r\nTransfer-Encoding: chunked\r\n\r\n0\r\n", b"X-T: v\r\n" * 8, True, None),
    "trailer-after-data": (b"POST / HTTP/1.1\r\nTransfer-Encoding: chunked\r\n\r\n3\r\nabc\r\n0\r\n", b"X-T: v\r\n" * 8, True, None),
}
ENDLESS_CFGS = [
    {},
    {"limit_request_line": 64, "limit_request_fields": 4, "limit_request_field_size": 32},
    {"limit_request_line": 0},
    {"limit_request_field_size": 0, "limit_request_fields": 10},
    {"limit_request_line": 8190, "limit_request_fields": 100, "limit_request_field_size": 8190, "proxy_protocol": True},
]
BLOCKS = [1, 7, 1024, 8192]


REAL_SOURCES = {
    "header-line": (b"GET / HTTP/1.1\r\nX-A: ", b"v"),
    "request-line": (b"GET /", b"a"),
    "header-block": (b"GET / HTTP/1.1\r\n", b"X-A: v\r\n"),
}


def run_real(case):
    """engine R: a client trickles an endless head to a real worker in small pieces with pauses (each piece a network read and an
    event-loop turn of its own), as the first or the second request on the connection: the server must answer or close before
    B(cfg) bytes have been sent"""
    import select
    import time
    from vlib import renv
    kind = case["kind"]
    limits = {"limit_request_line": 64, "limit_request_fields": 4, "limit_request_field_size": 32}
    bound = 2 * (64 + 4 * 34 + 4) + 65536
    srv = renv.Server(kind=kind, workers=1, bind="tcp", graceful=2, timeout=30, threads=2 if kind == "gthread" else None, keepalive=5,
                      extra=["--limit-request-line", "64", "--limit-request-fields", "4", "--limit-request-field_size", "32"])
    vio = []
    try:
        if not srv.wait_ready():
            return Outcome([], False, ["engine:R", "inconclusive:not-ready"])
        prefix, unit = REAL_SOURCES[case["source"]]
        c = srv.connect(5.0)
        sent = 0
        reacted = None
        try:
            if case.get("second") and kind != "sync":
                c.sendall(b"GET /pid HTTP/1.1\r\nHost: x\r\n\r\n")
                c.settimeout(5.0)
                buf = b""
                while b"\r\n\r\n" not in buf or b"pid=" not in buf:
                    d = c.recv(65536)
                    if not d:
                        break
                    buf += d
            c.setblocking(False)
            piece = 256
            pending = prefix
            while sent < bound + 40000:
                while len(pending) < piece:
                    pending += unit
                out, pending = pending[:piece], pending[piece:]
                try:
                    c.send(out)
                except (BlockingIOError, InterruptedError):
                    pending = out + pending
                except OSError as e:
                    reacted = "send:%s" % type(e).__name__
                    break
                else:
                    sent += len(out)
                r, _, _ = select.select([c], [], [], 0.005)
                if r:
                    try:
                        d = c.recv(65536)
                    except OSError as e:
                        reacted = "recv:%s" % type(e).__name__
                        break
                    reacted = "reply:%s" % d[:12].decode("latin-1") if d else "closed"
                    break
        finally:
            c.close()
        if reacted is None:
            vio.append(Violation("bounded-buffering", "C12/real:endless-head-not-rejected:%s:%s%s" % (kind, case["source"], ":second-request" if case.get("second") else ""),
                                 observed={"sent": sent, "bound": bound, "case": case, "log_tail": srv.logtext()[-500:]},
                                 expected="an error reply or a close before %d bytes were sent" % bound))
        return Outcome(vio, True, ["engine:R", "kind:" + kind, "source:" + case["source"], "second:%s" % bool(case.get("second"))],
                       key="R|%s|%s|%s" % (kind, case["source"], case.get("second")), sample={"case": case, "sent": sent, "reaction": reacted})
    finally:
        srv.cleanup()


def extra_cases(tier, seed, shard, nshards):
    cells = [(k, src, sec) for k in ("sync", "gthread", "gevent", "eventlet") for src in sorted(REAL_SOURCES) for sec in (False, True)
             if not (sec and k == "sync")]
    for i, (k, src, sec) in enumerate(cells):
        if tier == "quick" and (i + seed) % 3:
            continue
        if i % nshards == shard:
            yield {"kind": "real", "engine": "R", "wkind": k, "source": src, "second": sec}
    for i, c in enumerate(TRAILER_CELLS):
        if i % nshards == shard:
            yield dict(c, kind="trailers")
    combos = list(itertools.product(sorted(ENDLESS), range(len(ENDLESS_CFGS)), BLOCKS))
    for i, (name, ci, blk) in enumerate(combos):
        if i % nshards != shard:
            continue
        if blk < 1024 and ci != 1 and (tier == "quick" or blk == 1):
            continue        # feeding ~1 MiB in tiny reads is quadratic in the parser; tiny reads use the small-limit config
        yield {"kind": "endless", "source": name, "cfg": ci, "block": blk}


EXHAUSTIVE_NOTE = ("endless-source family enumerated completely: %d sources x %d configs x %d block sizes "
                   "(1-byte blocks, and in quick 7-byte blocks, only with the small-limit config)" % (len(ENDLESS), len(ENDLESS_CFGS), len(BLOCKS)))


class Meter(object):
    def __init__(self, prefix, unit, block, budget):
        self.prefix, self.unit, self.block, self.budget = prefix, unit, block, budget
        self.given = 0
        self.pending = prefix
        self.exhausted = False

    def __iter__(self):
        return self

    def __next__(self):
        if self.given >= self.budget:
            self.exhausted = True
            raise StopIteration
        while len(self.pending) < self.block:
            self.pending += self.unit
        out, self.pending = self.pending[:self.block], self.pending[self.block:]
        self.given += len(out)
        return out


# trailer sections that stay within every configured limit (count <= limit_request_fields, every line <= limit_request_field_size, 0 =
# unlimited as documented) are accepted like a head of that shape would be; only the accepting side is asserted here
TRAILER_CELLS = [{"fields": f, "fsize": z, "n": n, "size": sz, "cut": cut}
                 for f, z in ((100, 8190), (100, 0), (4, 100), (4, 0), (32768, 0))
                 for n, sz in ((1, 20), (3, 90), (3, 98), (2, 4000), (2, 9000), (4, 60))
                 for cut in (None, "in-trailers")
                 if n <= f and (z == 0 or sz + 2 <= z)]        # (the 2-byte band around the field-size limit is not asserted: line with its CRLF)


def run_trailers(case):
    cfg = penv.make_cfg(limit_request_fields=case["fields"], limit_request_field_size=case["fsize"])
    lines = ["X-T%d: " % i for i in range(case["n"])]
    trailers = "".join(l + "t" * (case["size"] - len(l)) + "\r\n" for l in lines)       # each line is `size` bytes without its CRLF
    head = "POST /t HTTP/1.1\r\nHost: h\r\nTransfer-Encoding: chunked\r\n\r\n5\r\nhello\r\n0\r\n"
    stream = (head + trailers + "\r\nGET /after HTTP/1.1\r\nHost: h\r\n\r\n").encode("latin-1")
    cuts = [len(head) + len(trailers) // 2] if case["cut"] else []
    cuts += list(range(8192, len(stream), 8192))
    reqs, terminal = penv.observe(stream, sorted(set(cuts)), cfg)
    vio = []
    ok = len(reqs) == 2 and reqs[0]["body"] == b"hello" and reqs[0]["body_error"] is None and len(reqs[0]["trailers"]) == case["n"] \
        and reqs[1]["uri"] == "/after"
    if not ok:
        vio.append(Violation("within-limits-accepted", "C12/trailers-within-the-limits-refused",
                             observed={"requests": len(reqs), "terminal": terminal, "body_error": reqs[0]["body_error"] if reqs else None,
                                       "trailers": len(reqs[0]["trailers"]) if reqs else None, "case": case},
                             expected="request with %d trailers, then /after" % case["n"]))
    return Outcome(vio, True, ["kind:trailers", "fsize:%d" % case["fsize"]], key="trailers|%s" % sorted(case.items()),
                   sample={"case": case, "terminal": terminal})


def run_endless(case):
    name = case["source"]
    prefix, unit, needs_body, exempt = ENDLESS[name]
    kw = dict(ENDLESS_CFGS[case["cfg"]])
    if name in ("proxy-line", "request-line-after-proxy"):
        kw["proxy_protocol"] = True
    cfg = penv.make_cfg(**kw)
    line = cfg.limit_request_line
    if line < 0 or line >= 8190:
        line = 8190
    fields = cfg.limit_request_fields
    if fields <= 0 or fields > 32768:
        fields = 32768
    fsize = cfg.limit_request_field_size or 8190
    max_buffer_headers = fields * (fsize + 2) + 4
    bound = 2 * (line + max_buffer_headers) + 65536
    is_exempt = exempt == "line0" and cfg.limit_request_line == 0
    budget = bound + 262144
    src = Meter(prefix, unit, case["block"], budget if not is_exempt else 300000)
    parser = RequestParser(cfg, src, ("127.0.0.1", 5))
    outcome = None
    try:
        req = next(parser)
        if name.startswith("second-"):
            req.body.read()
            req = next(parser)
        if needs_body:
            while True:
                d = req.body.read(8192)
                if not d:
                    outcome = "body-eof"
                    break
        else:
            outcome = "yielded"
    except StopIteration:
        outcome = "stop"
    except Exception as e:   # noqa
        outcome = "exc:" + type(e).__name__
    vio = []
    where = "head" if not needs_body else "body"
    if is_exempt:
        cls = "exempt"
    elif src.exhausted or src.given > bound:
        cls = "unbounded"
        vio.append(Violation("bounded-buffering", "C12/unbounded-buffering:" + name.split("-after")[0],
                             observed={"consumed": src.given, "outcome": outcome, "source": name, "cfg": kw, "block": case["block"]},
                             expected="rejected before %d bytes" % bound))
    elif not outcome.startswith("exc:"):
        cls = "no-reject"
        vio.append(Violation("bounded-buffering", "C12/endless-source-not-rejected:" + name,
                             observed={"consumed": src.given, "outcome": outcome}, expected="an error"))
    else:
        cls = "rejected"
    return Outcome(vio, True, ["endless:" + name + ":" + cls, "where:" + where],
                   sample={"endless": name, "cfg": kw, "block": case["block"], "consumed": src.given, "bound": bound,
                           "outcome": outcome})
