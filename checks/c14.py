"""C14 Binary upgrade (USR2) hands the listening sockets over without a gap — engine R."""
import hashlib
import os
import signal
import threading
import time

from vlib.common import Outcome, Violation
from vlib import renv

PROPERTY = "C14"
RULE = ("enumerated upgrade histories {USR2 then TERM old | QUIT old | TERM new | QUIT new | INT old | INT new | second USR2 while pending | "
        "USR2 then TERM/QUIT old at once, before the new master has started | USR2, TERM old, USR2 on the promoted master, TERM first-new | USR2, TERM new, USR2 again | daemon mode: USR2, WINCH old, HUP old, TERM new | systemd socket activation (LISTEN_FDS): USR2, TERM old} x bind {tcp, unix; IPv6 literal and host name for four of the histories} x worker class "
        "{sync, gthread} with seeded sub-second jitter, on two (or three) real masters started from the working tree under a "
        "connect-loop client. Oracle: no connect is ever refused; after USR2 the configured pid file names the old master and '<pidfile>.2' "
        "the new one; once the old master is gone the configured name holds the new pid within 3 s and '.2' is absent; if the new one goes "
        "first the configured name still holds the old pid, '.2' is absent and the old master serves; the unix socket path exists and is "
        "connectable after either exit; a second USR2 while an upgrade is pending creates no third master; a further upgrade of the promoted "
        "master works. non-trivial = every history (two masters are involved in all of them); distinct by cell")
ASSUMPTIONS = [
    "masters are identified through the pid files and /proc; the new master is the process named by '<pidfile>.2'",
    "wall-clock bounds: 12 s for a new master to come up, 3 s (+1 s slack) for the pid-file promotion",
    "the daemon-mode rollback history (USR2, WINCH old, HUP old, TERM new) runs a daemonised master found through its pid file",
]
BUDGET = {"quick": (16, 0), "thorough": (16, 0)}

HISTORIES = ["term-old", "quit-old", "term-new", "quit-new", "int-old", "int-new", "usr2-twice", "upgrade-twice", "rollback-then-upgrade",
             "daemon-rollback", "systemd-term-old", "term-old-at-once", "quit-old-at-once", "daemon-rollback-term-first"]


def extra_cases(tier, seed, shard, nshards):
    cells = []
    for hi, h in enumerate(HISTORIES):
        for bind in ("tcp", "unix"):
            kinds = ["sync", "gthread"] if tier == "thorough" else [["sync", "gthread"][(hi + (bind == "unix") + seed) % 2]]
            for kind in kinds:
                cells.append({"history": h, "bind": bind, "kind": kind})
    # other listener types: an IPv6 literal and a host name (the inherited-socket path differs per socket class)
    for hi, (h, bind) in enumerate([("term-old", "tcp6"), ("upgrade-twice", "tcp6"), ("term-new", "tcp6"), ("term-old", "tcp-name"),
                                    ("upgrade-twice", "tcp-name"), ("daemon-rollback", "tcp-name"), ("daemon-rollback", "tcp6")]):
        cells.append({"history": h, "bind": bind, "kind": ["sync", "gthread"][(hi + seed) % 2]})
    if tier == "thorough":
        cells = [dict(c, rep=r) for c in cells for r in range(2)]
    for i, c in enumerate(cells):
        if i % nshards == shard:
            j = int(hashlib.sha1(("%d-%d" % (seed, i)).encode()).hexdigest()[:4], 16) / 65535.0
            yield dict(c, jitter=round(0.05 + 0.6 * j, 2))


EXHAUSTIVE_NOTE = "all %d histories x both binds are enumerated in both tiers (thorough: x both worker classes x 2 jitters)" % len(HISTORIES)


class Load(threading.Thread):
    def __init__(self, srv):
        threading.Thread.__init__(self, daemon=True)
        self.srv = srv
        self.stop = False
        self.n = 0
        self.errors = []
        self.bad = []

    def run(self):
        while not self.stop:
            t = time.time()
            r, data, err = self.srv.request("/pid", timeout=6.0)
            self.n += 1
            if err and err.startswith("connect:"):
                self.errors.append((t, err))
            elif r is None or not (r.ok and r.complete and r.status == 200):
                self.bad.append((t, data[:100], err))
            time.sleep(0.01)


def read_pid(path):
    try:
        with open(path) as f:
            return int(f.read().strip() or 0)
    except (OSError, ValueError):
        return None


def wait_for(cond, limit):
    t0 = time.time()
    while time.time() - t0 < limit:
        v = cond()
        if v:
            return v
        time.sleep(0.05)
    return cond()


def run_case(case):
    h, bind, kind = case["history"], case["bind"], case["kind"]
    classes = ["history:" + h, "bind:" + bind, "kind:" + kind]
    at_once = h.endswith("-at-once")
    # "-at-once": the old master is stopped right after USR2, before the re-executed one has started up (a pre_exec hook that takes
    # a moment makes the order certain): the new master finds its parent already gone
    srv = renv.Server(kind=kind, workers=2, bind=bind, graceful=3, timeout=30, threads=2 if kind == "gthread" else None,
                      daemon=h.startswith("daemon-rollback"), systemd=h.startswith("systemd"),
                      conf_lines=["import time", "def pre_exec(server):", "    time.sleep(0.7)"] if at_once else ())
    vio = []

    def V(clause, sig, observed=None, expected=None):
        vio.append(Violation(clause, "C14/" + sig, observed={"detail": observed, "case": case, "log_tail": srv.logtext()[-1500:]},
                             expected=expected))

    pf, pf2 = srv.pidfile, srv.pidfile + ".2"
    load = None

    def upgrade(master, label):
        """USR2 to `master`; -> pid of the new master or None"""
        if h.startswith("systemd"):
            label = label + ":systemd"
        os.kill(master, signal.SIGUSR2)
        new = wait_for(lambda: (read_pid(pf2) if read_pid(pf2) and renv.alive(read_pid(pf2)) and renv.children(read_pid(pf2)) else None), 12)
        if not new:
            V("new-master-starts", "no-new-master-after-usr2:" + label, {"pidfile2": read_pid(pf2), "masters": masters()}, "new master with workers")
            return None
        if read_pid(pf) != master:
            V("pidfile-names", "configured-pidfile-changed-by-usr2:" + label, {"pidfile": read_pid(pf), "old": master}, master)
        st = renv.stat(new)
        if st and st["ppid"] != master:
            V("new-master-starts", "new-master-not-child-of-old", {"ppid": st["ppid"]}, master)
        return new

    def masters():
        return [p for p in srv.session_procs() if renv.children(p)]

    def expect_promoted(new, gone, label):
        ok = wait_for(lambda: read_pid(pf) == new and not os.path.exists(pf2), 4)
        if not ok:
            V("promotion", "pidfile-not-promoted:" + label, {"pidfile": read_pid(pf), "pidfile2": read_pid(pf2), "new": new, "gone": gone},
              {"pidfile": new, "pidfile2": None})

    def expect_serving(label):
        r, data, err = srv.request("/pid", timeout=5)
        if r is None or not (r.ok and r.complete and r.status == 200):
            V("still-serving", "not-serving-after:" + label, {"error": err, "data": data[:100]}, "200")
        if bind == "unix" and not os.path.exists(srv.sockpath):
            V("socket-file-kept", "unix-socket-file-removed-while-a-master-uses-it:" + label, None, "socket path exists")

    def kill_and_wait(pid, sig, is_child):
        try:
            os.kill(pid, sig)
        except ProcessLookupError:
            V("masters-alive", "master-gone-before-it-was-told-to-stop:%s" % ("old" if pid == srv.pid else "new"),
              {"pid": pid, "masters": masters()}, "the master is still running at this point of the history")
            return True
        if is_child:
            srv.wait_exit(10)
        return wait_for(lambda: not renv.alive(pid), 10)

    try:
        if not srv.wait_ready():
            return Outcome([], False, classes + ["inconclusive:not-ready"], sample={"case": case})
        old = srv.pid
        load = Load(srv)
        load.start()
        time.sleep(0.2)
        if at_once:
            os.kill(old, signal.SIGUSR2)
            time.sleep(min(case.get("jitter", 0.1), 0.3))
            os.kill(old, signal.SIGTERM if h.startswith("term") else signal.SIGQUIT)
            srv.wait_exit(10)
            if not wait_for(lambda: not renv.alive(old), 10):
                V("old-exits", "old-master-did-not-exit", None, "exit")
            new = wait_for(lambda: (lambda p: p if p and p != old and renv.alive(p) and renv.children(p) else None)(read_pid(pf)), 15)
            if not new:
                V("new-master-starts", "no-master-under-configured-pidfile-after-usr2-then-stop:" + h,
                  {"pidfile": read_pid(pf), "pidfile2": read_pid(pf2), "masters": masters()}, "the re-executed master, promoted")
            else:
                expect_promoted(new, old, h)
                expect_serving(h)
            new = None
        else:
            new = upgrade(old, "first")
        if new:
            time.sleep(case.get("jitter", 0.1))
            sig = {"term": signal.SIGTERM, "quit": signal.SIGQUIT, "int": signal.SIGINT}
            if h == "systemd-term-old":
                if not kill_and_wait(old, signal.SIGTERM, True):
                    V("old-exits", "old-master-did-not-exit", None, "exit")
                expect_promoted(new, old, h)
                expect_serving(h)
            elif h in ("term-old", "quit-old", "int-old"):
                if not kill_and_wait(old, sig[h.split("-")[0]], True):
                    V("old-exits", "old-master-did-not-exit", None, "exit")
                expect_promoted(new, old, h)
                expect_serving(h)
            elif h in ("term-new", "quit-new", "int-new"):
                if not kill_and_wait(new, sig[h.split("-")[0]], False):
                    V("new-exits", "new-master-did-not-exit", None, "exit")
                ok = wait_for(lambda: read_pid(pf) == old and not os.path.exists(pf2), 4)
                if not ok:
                    V("rollback", "pidfiles-wrong-after-new-master-left", {"pidfile": read_pid(pf), "pidfile2": read_pid(pf2)},
                      {"pidfile": old, "pidfile2": None})
                expect_serving(h)
                if len(renv.children(old)) != 2 and not wait_for(lambda: len(renv.children(old)) == 2, 3):
                    V("rollback", "old-master-worker-count-changed", {"children": renv.children(old)}, 2)
            elif h == "usr2-twice":
                before = set(srv.session_procs())
                os.kill(old, signal.SIGUSR2)
                time.sleep(1.5)
                ms = masters()
                third = [p for p in srv.session_procs() if p not in before and renv.stat(p) and renv.stat(p)["ppid"] == old
                         and p not in renv.children(old)[:0]]
                new_children_of_old = [p for p in renv.children(old) if p not in before]
                if len(ms) > 2 or read_pid(pf2) != new:
                    V("second-usr2-ignored", "third-master-after-second-usr2", {"masters": ms, "pidfile2": read_pid(pf2)}, "two masters")
                os.kill(new, signal.SIGUSR2)          # the new master must ignore it too ("Parent exists")
                time.sleep(1.0)
                if len(masters()) > 2:
                    V("second-usr2-ignored", "new-master-reexecs-while-parent-alive", {"masters": masters()}, "two masters")
                expect_serving(h)
            elif h == "upgrade-twice":
                if not kill_and_wait(old, signal.SIGTERM, True):
                    V("old-exits", "old-master-did-not-exit", None, "exit")
                expect_promoted(new, old, "first-upgrade")
                third = upgrade(new, "second")
                if third:
                    kill_and_wait(new, signal.SIGTERM, False)
                    expect_promoted(third, new, "second-upgrade")
                    expect_serving("second-upgrade")
            elif h == "daemon-rollback":
                # documented rollback recipe (daemon mode): WINCH the old master (its workers stop), HUP it (they come back),
                # then TERM the new master
                os.kill(old, signal.SIGWINCH)
                if not wait_for(lambda: len(renv.children(old)) == 1 and renv.children(old) == [new], 8):
                    V("winch", "old-master-kept-workers-after-winch", {"children": renv.children(old), "new": new}, "only the new master as child")
                expect_serving("winch")
                os.kill(old, signal.SIGHUP)
                if not wait_for(lambda: len([p for p in renv.children(old) if p != new]) == 2, 8):
                    V("rollback", "old-master-workers-not-restored-by-hup", {"children": renv.children(old)}, "2 workers again")
                kill_and_wait(new, signal.SIGTERM, False)
                ok = wait_for(lambda: read_pid(pf) == old and not os.path.exists(pf2), 4)
                if not ok:
                    V("rollback", "pidfiles-wrong-after-new-master-left", {"pidfile": read_pid(pf), "pidfile2": read_pid(pf2)},
                      {"pidfile": old, "pidfile2": None})
                expect_serving(h)
                if not wait_for(lambda: len(renv.children(old)) == 2, 4):
                    V("rollback", "old-master-worker-count-changed", {"children": renv.children(old)}, 2)
            elif h == "daemon-rollback-term-first":
                # WINCH the old master (no workers left), stop the NEW master while the old one has no worker at all, bring the old
                # one's workers back with HUP, then upgrade again
                os.kill(old, signal.SIGWINCH)
                if not wait_for(lambda: renv.children(old) == [new], 8):
                    V("winch", "old-master-kept-workers-after-winch", {"children": renv.children(old), "new": new}, "only the new master as child")
                kill_and_wait(new, signal.SIGTERM, False)
                if not wait_for(lambda: not os.path.exists(pf2) and not [p for p in renv.all_pids() if (renv.stat(p) or {}).get("ppid") == old], 5):
                    zs = [(p, (renv.stat(p) or {}).get("state")) for p in renv.all_pids() if (renv.stat(p) or {}).get("ppid") == old]
                    V("rollback", "new-master-not-reaped-by-the-old-one", {"children_of_old": zs, "pidfile2": read_pid(pf2)}, "no child left, no '.2' pid file")
                os.kill(old, signal.SIGHUP)
                if not wait_for(lambda: len(renv.children(old)) == 2, 8):
                    V("rollback", "old-master-workers-not-restored-by-hup", {"children": renv.children(old)}, "2 workers again")
                expect_serving("rollback")
                if read_pid(pf) != old:
                    V("rollback", "pidfiles-wrong-after-new-master-left", {"pidfile": read_pid(pf), "pidfile2": read_pid(pf2)}, {"pidfile": old})
                new2 = upgrade(old, "after-rollback")
                if new2:
                    kill_and_wait(old, signal.SIGTERM, True)
                    expect_promoted(new2, old, "after-rollback")
                    expect_serving("after-rollback")
            elif h == "rollback-then-upgrade":
                kill_and_wait(new, signal.SIGTERM, False)
                wait_for(lambda: not os.path.exists(pf2), 4)
                time.sleep(0.5)
                new2 = upgrade(old, "after-rollback")
                if new2:
                    kill_and_wait(old, signal.SIGTERM, True)
                    expect_promoted(new2, old, "after-rollback")
                    expect_serving("after-rollback")
        time.sleep(0.3)
        load.stop = True
        load.join(10)
        if load.errors:
            V("never-refused", "connect-refused-during-upgrade:%s" % load.errors[0][1].split(":")[1],
              {"count": len(load.errors), "of": load.n, "first": load.errors[0][1]}, "no refused connect")
        elif load.bad and kind == "sync" and not h.startswith(("quit-", "int-")):
            # (a quick shutdown may cut the requests its own workers were handling: only graceful histories are judged here)
            V("never-cut", "bad-response-during-upgrade", {"count": len(load.bad), "first": load.bad[0][1:]}, "complete responses")
        return Outcome(vio, True, classes + ["requests:%d" % min(load.n // 100, 9)], key="%s|%s|%s|%s" % (h, bind, kind, case.get("rep", 0)),
                       sample={"case": case, "requests": load.n, "connect_errors": len(load.errors)})
    finally:
        if load is not None:
            load.stop = True
        srv.cleanup()
