"""C08 Only trusted peers can set scheme, script name or client address — engine W + reference trust model."""
from hypothesis import strategies as st

from vlib.common import Outcome, Violation
from vlib import wenv

PROPERTY = "C08"
RULE = ("1-3 keep-alive requests whose header sets mix hyphen/underscore/case spellings of forwarding, scheme, SCRIPT_NAME/PATH_INFO "
        "and ordinary fields (duplicates, conflicting scheme headers) x peer (listed IPv4, unlisted IPv4, IPv6, unix) x "
        "forwarded_allow_ips x proxy_allow_ips x forwarder_headers x header_map x secure_scheme_headers x proxy_protocol with "
        "valid/invalid/absent PROXY line x optional earlier connection from another peer to the same worker x worker class; the environ of every application call is compared with a reference trust "
        "model: exact HTTP_* mapping (no two spellings in one variable under drop/refuse), wsgi.url_scheme / SCRIPT_NAME / PATH_INFO / "
        "REMOTE_ADDR differ from their untrusted defaults only when the peer passes the matching allow list, conflicting scheme "
        "headers from a trusted peer are rejected, PROXY from an unlisted peer is refused without an application call, and an accepted "
        "PROXY address applies to every request of the connection. non-trivial = an untrusted peer sent a proxy-fact header, or a "
        "PROXY line was followed by >=2 served requests; distinct by case hash")
ASSUMPTIONS = [
    "unix-socket peers are trusted for both allow lists (documented)",
    "header_map=dangerous is generated only to confirm it is the only mode that merges spellings; its proxy-fact verdicts are skipped",
    "a forwarder header from an allowed peer is mapped regardless of the underscore policy (documented exception, modelled)",
]
BUDGET = {"quick": (16, 700), "thorough": (16, 30000)}

PEERS = {
    "listed4": ("127.0.0.1", 40001),
    "unlisted4": ("10.9.8.7", 40002),
    "listed6": ("::1", 40003, 0, 0),
    "other4": ("192.168.1.5", 40004),
    "unix": "",
}
ALLOW = ["127.0.0.1,::1", "*", "192.168.1.5", "10.0.0.1", ""]
SCHEME_CFGS = [
    None,   # default: X-FORWARDED-PROTOCOL: ssl, X-FORWARDED-PROTO: https, X-FORWARDED-SSL: on
    {"X-FORWARDED-PROTO": "https"},
    {"X_FORWARDED_PROTO": "https"},
    {},
]
FWD = ["SCRIPT_NAME,PATH_INFO", "", "*", "X_FORWARDED_FOR,SCRIPT_NAME", "REMOTE_USER"]

HEADER_POOL = [
    ("X-Forwarded-Proto", "https"), ("X-Forwarded-Proto", "http"), ("x-forwarded-proto", "https"), ("X_Forwarded_Proto", "https"),
    ("X-Forwarded-Ssl", "on"), ("X-Forwarded-SSL", "off"), ("X-Forwarded-Protocol", "ssl"), ("X-Forwarded-Protocol", "tls"),
    ("X-Forwarded-For", "1.2.3.4"), ("X_Forwarded_For", "6.6.6.6"), ("x_forwarded_for", "7.7.7.7"), ("X-Forwarded_For", "8.8.8.8"),
    ("SCRIPT_NAME", "/app"), ("script_name", "/app"), ("Script-Name", "/app"), ("Script_Name", "/app"), ("SCRIPT-NAME", "/app"),
    ("PATH_INFO", "/evil"), ("Path-Info", "/evil"), ("REMOTE_USER", "admin"), ("Remote-User", "admin"), ("Remote_Addr", "9.9.9.9"),
    ("X-Real-Ip", "5.5.5.5"), ("X_Real_Ip", "5.5.5.6"), ("Accept", "*/*"), ("X-A", "1"), ("X_A", "2"), ("x-a", "3"),
    ("Content-Type", "text/plain"), ("Content_Type", "evil/type"), ("Content_Length", "0"), ("Host_", "evil"), ("User-Agent", "ua"),
    ("Proxy", "x"), ("Transfer_Encoding", "chunked"),
    # the underscore at the very start / very end of the name, a name that is nothing but underscores, and their hyphen twins
    ("_Token", "smuggled"), ("-Token", "genuine"), ("_Remote-User", "root"), ("-Remote-User", "me"), ("_", "u"), ("-", "h"), ("__", "uu"),
    ("Token_", "t1"), ("Token-", "t2"), ("_X_A", "4"),
]

PROXY_LINES = [
    None, None,
    "PROXY TCP4 203.0.113.7 10.0.0.1 56324 443",
    "PROXY TCP6 2001:db8::7 2001:db8::1 56324 443",
    "PROXY TCP4 203.0.113.7 10.0.0.1 56324",            # invalid: 5 fields
    "PROXY TCP4 999.0.113.7 10.0.0.1 56324 443",        # invalid address
    "PROXY UNKNOWN",
    "PROXY TCP4 203.0.113.7 10.0.0.1 70000 443",        # invalid port
]


def strategy(tier):
    req = st.fixed_dictionaries({
        "target": st.sampled_from(["/", "/app/x", "/app", "/evil", "/other"]),
        "headers": st.lists(st.sampled_from(HEADER_POOL).map(list), min_size=0, max_size=5),
    })
    return st.fixed_dictionaries({
        "kind": st.sampled_from(list(wenv.KINDS)),
        "peer": st.sampled_from(sorted(PEERS)),
        "forwarded_allow_ips": st.sampled_from(ALLOW),
        "proxy_allow_ips": st.sampled_from(ALLOW),
        "forwarder_headers": st.sampled_from(FWD),
        "header_map": st.sampled_from(["drop", "drop", "refuse", "dangerous"]),
        "scheme_cfg": st.integers(0, len(SCHEME_CFGS) - 1),
        "proxy_protocol": st.booleans(),
        "proxy_line": st.sampled_from([None] * 6 + PROXY_LINES + [PROXY_LINES[2], PROXY_LINES[3]]),
        "requests": st.lists(req, min_size=1, max_size=3),
        # an earlier connection to the same worker, from another peer, sending the same bytes: the gate is per peer, not per worker
        "earlier_peer": st.one_of(st.none(), st.sampled_from(sorted(PEERS))),
    })


def peer_in(peer, allow):
    lst = [x.strip() for x in allow.split(",") if x.strip()]
    if "*" in lst:
        return True
    if not isinstance(peer, tuple):
        return True
    return peer[0] in lst


DEFAULT_SCHEME = {"X-FORWARDED-PROTOCOL": "ssl", "X-FORWARDED-PROTO": "https", "X-FORWARDED-SSL": "on"}


def model_request(case, req, trusted):
    """-> ("reject", why) | ("ok", expected dict)"""
    scheme_cfg = SCHEME_CFGS[case["scheme_cfg"]]
    scheme_hdrs = DEFAULT_SCHEME if scheme_cfg is None else scheme_cfg
    fwd = [x.strip().upper() for x in case["forwarder_headers"].split(",") if x.strip()]
    hm = case["header_map"]
    scheme = "http"
    seen_scheme = False
    http = {}
    sources = {}
    script_name = ""
    ctype = None
    for k, v in [["Host", "example.com"]] + req["headers"]:
        name = k.upper()
        if trusted and name in scheme_hdrs:
            sch = "https" if v == scheme_hdrs[name] else "http"
            if seen_scheme and sch != scheme:
                return "reject", "conflicting-scheme"
            seen_scheme = True
            scheme = sch
        if "_" in name:
            if trusted and (name in fwd or "*" in fwd):
                pass
            elif hm == "dangerous":
                pass
            elif hm == "drop":
                continue
            else:
                return "reject", "underscore-refused"
        if name == "SCRIPT_NAME":
            script_name = v
        if name == "CONTENT-TYPE":
            ctype = v
            continue
        if name == "CONTENT-LENGTH":
            continue
        key = "HTTP_" + name.replace("-", "_")
        http[key] = (http[key] + "," + v) if key in http else v
        sources.setdefault(key, set()).add(name)
    path = req["target"]
    if script_name and not path.startswith(script_name):
        return "reject", "script-name-mismatch"
    exp = dict(http)
    exp["wsgi.url_scheme"] = scheme
    exp["SCRIPT_NAME"] = script_name
    exp["PATH_INFO"] = path[len(script_name):]
    return "ok", (exp, sources, ctype)


def run_case(case):
    kind = case["kind"]
    peer = PEERS[case["peer"]]
    kw = dict(keepalive=2, worker_connections=10, threads=2, forwarded_allow_ips=case["forwarded_allow_ips"],
              proxy_allow_ips=case["proxy_allow_ips"], forwarder_headers=case["forwarder_headers"],
              header_map=case["header_map"], proxy_protocol=case["proxy_protocol"])
    if SCHEME_CFGS[case["scheme_cfg"]] is not None:
        kw["secure_scheme_headers"] = SCHEME_CFGS[case["scheme_cfg"]]
    cfg = wenv.make_cfg(**kw)
    raw = ""
    if case["proxy_line"]:
        raw += case["proxy_line"] + "\r\n"
    for r in case["requests"]:
        raw += "GET %s HTTP/1.1\r\nHost: example.com\r\n" % r["target"] + "".join("%s: %s\r\n" % (k, v) for k, v in r["headers"]) + "\r\n"
    app = wenv.AppProgram({"status": "200 OK", "headers": [["Content-Length", "2"]], "mode": "list", "chunks": ["ok"], "read_input": "none"})
    env = wenv.Env(kind, cfg, app)
    if case["peer"] == "unix":
        env.listener = wenv.FakeListener("/run/gunicorn.sock")
    if case.get("earlier_peer") and case["peer"] != "unix" and case["earlier_peer"] != "unix":
        env.serve(wenv.FakeSocket([raw.encode("latin-1")], peer=PEERS[case["earlier_peer"]]))
        del app.calls[:]
    sock = wenv.FakeSocket([raw.encode("latin-1")], peer=peer)
    escaped = env.serve(sock)
    vio = []
    classes = ["kind:" + kind, "peer:" + case["peer"], "header_map:" + case["header_map"]]

    def V(clause, sig, observed=None, expected=None):
        vio.append(Violation(clause, "C08/" + sig, observed={"detail": observed, "case": {k: case[k] for k in case if k != "requests"},
                                                             "calls": len(app.calls), "wire": sock.received()[:160]},
                             expected=expected))

    if escaped is not None:
        V("no-escape", "exception-escaped-handle:" + type(escaped).__name__, repr(escaped))
        return Outcome(vio, True, classes)
    trusted_fwd = peer_in(peer, case["forwarded_allow_ips"])
    trusted_proxy = peer_in(peer, case["proxy_allow_ips"])
    # ---- PROXY line model
    proxy = None
    expect_calls = None
    pl = case["proxy_line"]
    if pl:
        if not case["proxy_protocol"]:
            expect_calls = 0                    # "PROXY ..." is not a request line
            classes.append("proxy:off-but-sent")
        elif not trusted_proxy:
            expect_calls = 0                    # 403
            classes.append("proxy:forbidden")
        elif pl in (PROXY_LINES[2], PROXY_LINES[3]):
            bits = pl.split(" ")
            proxy = (bits[2], bits[4])
            classes.append("proxy:accepted")
        else:
            expect_calls = 0
            classes.append("proxy:invalid")
    if expect_calls == 0:
        if app.calls:
            V("proxy-gate", "application-called-despite-%s" % classes[-1].replace(":", "-"), {"environ": _brief(app.calls[0]["environ"])},
              "request refused, no application call")
        nt = case["proxy_protocol"] and not trusted_proxy and bool(pl)
        return Outcome(vio, nt, classes, sample=_sample(case, app))
    dangerous = case["header_map"] == "dangerous"
    untrusted_fact = False
    served = 0
    max_serve = 1 if kind == "sync" else len(case["requests"])
    for i, rq in enumerate(case["requests"][:max_serve]):
        verdict, info = model_request(case, rq, trusted_fwd)
        names = [k.upper() for k, _ in rq["headers"]]
        if not trusted_fwd and any(n in ("SCRIPT_NAME", "PATH_INFO") or n.replace("_", "-") in DEFAULT_SCHEME or n in DEFAULT_SCHEME
                                   or n.replace("_", "-") in ("SCRIPT-NAME",) for n in names):
            untrusted_fact = True
        if verdict == "reject":
            classes.append("model-reject:" + info)
            if len(app.calls) > i:
                if not dangerous or info == "conflicting-scheme":
                    V("rejected", "application-called-despite-" + info, {"request": rq, "environ": _brief(app.calls[i]["environ"])},
                      "request rejected")
            break
        if len(app.calls) <= i:
            V("accepted", "valid-request-not-served", {"request": rq, "index": i}, "application called")
            break
        served += 1
        exp, sources, ctype = info
        e = app.calls[i]["environ"]
        # (a) exact HTTP_* mapping
        got_http = {k: v for k, v in e.items() if k.startswith("HTTP_")}
        exp_http = {k: v for k, v in exp.items() if k.startswith("HTTP_")}
        if got_http != exp_http:
            diff = sorted(k for k in set(got_http) | set(exp_http) if got_http.get(k) != exp_http.get(k))
            k0 = diff[0]
            merged = not dangerous and k0 in got_http and len(
                set(n.upper() for n, _ in rq["headers"] if "HTTP_" + n.upper().replace("-", "_") == k0)) > 1
            V("header-mapping", "http-variable-merged-from-two-spellings" if merged else "http-variable-differs",
              {"key": k0, "got": got_http.get(k0), "request": rq}, {"want": exp_http.get(k0)})
            break
        if dangerous:
            continue
        # (b)(c)(d) proxy facts
        for key in ("wsgi.url_scheme", "SCRIPT_NAME", "PATH_INFO"):
            if e.get(key) != exp[key]:
                V("trust-gate", "%s-%s" % (key, "set-by-untrusted-peer" if not trusted_fwd else "differs"),
                  {"key": key, "got": e.get(key), "request": rq, "trusted": trusted_fwd}, {"want": exp[key]})
                break
        if vio:
            break
        want_addr = proxy[0] if proxy else (peer[0] if isinstance(peer, tuple) else "")
        if e.get("REMOTE_ADDR") != want_addr:
            V("remote-addr", "remote-addr-differs:request-%s%s" % ("first" if i == 0 else "later", ":proxy" if proxy else ""),
              {"got": e.get("REMOTE_ADDR"), "request_index": i, "kind": kind}, {"want": want_addr})
            break
        if proxy and e.get("REMOTE_PORT") != proxy[1]:
            V("remote-addr", "remote-port-differs:proxy", {"got": e.get("REMOTE_PORT"), "request_index": i}, {"want": proxy[1]})
            break
        ct = e.get("CONTENT_TYPE")
        if ct != ctype:
            V("header-mapping", "content-type-differs", {"got": ct, "request": rq}, {"want": ctype})
            break
    nontrivial = untrusted_fact or (proxy is not None and served >= 2)
    classes.append("trusted_fwd:%s" % trusted_fwd)
    classes.append("served:%d" % served)
    return Outcome(vio, nontrivial, classes, sample=_sample(case, app))


def _brief(e):
    return {k: v for k, v in e.items() if k.startswith("HTTP_") or k in ("wsgi.url_scheme", "SCRIPT_NAME", "PATH_INFO", "REMOTE_ADDR", "REMOTE_PORT")}


def _sample(case, app):
    return {"case": case, "environs": [_brief(c["environ"]) for c in app.calls][:3]}
