"""C03 The master keeps exactly the configured number of live workers — engine K (real Arbiter.run on a simulated kernel)."""
import signal

from hypothesis import strategies as st

from vlib.common import Outcome, Violation
from vlib import ksim

PROPERTY = "C03"
RULE = ("initial workers 1-4 x timeout {0,1,2,5,30} x history of up to 12 external events {worker exit with status 0/1/3/4/255 or "
        "signal 9/15/11, TTIN/TTOU bursts of 1-7 signals, HUP with a new worker count, child dying inside fork(), tick} x a schedule "
        "vector that decides at every fake system call (fork, kill, waitpid, sleep, select) whether a dying child dies there, so that "
        "SIGCHLD's handler runs inside spawn_worker, kill_workers, manage_workers, reload; the real Arbiter.run() executes against the "
        "simulated kernel and is compared with a reference pool model at quiescence (timeout+8 idle seconds after the last event): "
        "live == tracked, |live| == target (TTIN/TTOU clamp at 1, 5-deep signal queue, HUP resets), no zombie, every surplus TERM to the "
        "then-oldest tracked workers, exit status 3/4 of a child => run() leaves with that status. non-trivial = >=1 death and >=1 of "
        "TTIN/TTOU/HUP, or a death inside fork(); distinct by case hash")
ASSUMPTIONS = [
    "signal handlers run at fake system-call boundaries, not between arbitrary bytecodes",
    "a healthy worker exits some boundaries after TERM; hung workers are C11's domain",
    "USR1/USR2/WINCH are outside this property's quantifier and not generated",
]
BUDGET = {"quick": (16, 300), "thorough": (16, 50000)}

STATUS = [0, 1 << 8, 255 << 8, 9, 15, 11, 0, 1 << 8, 9, 3 << 8, 4 << 8]

event = st.one_of(
    st.tuples(st.just("exit"), st.integers(0, 5), st.sampled_from(STATUS)),
    st.tuples(st.just("exit"), st.integers(0, 5), st.sampled_from(STATUS[:8])),
    st.tuples(st.just("sig"), st.lists(st.sampled_from(["SIGTTIN", "SIGTTOU"]), min_size=1, max_size=7)),
    st.tuples(st.just("sig"), st.lists(st.sampled_from(["SIGTTIN", "SIGTTOU"]), min_size=1, max_size=2)),
    st.tuples(st.just("hup"), st.integers(1, 4)),
    st.tuples(st.just("fastdeath"), st.sampled_from([0, 1 << 8, 9, 11, 255 << 8])),
    st.tuples(st.just("tick")),
)


def strategy(tier):
    return st.fixed_dictionaries({
        "workers": st.integers(1, 4),
        "timeout": st.sampled_from([0, 1, 2, 5, 30, 30]),
        "events": st.lists(event, min_size=1, max_size=12).map(lambda l: [list(e) for e in l]),
        "sched": st.lists(st.integers(0, 11), max_size=60),
    })


def model_target(case, applied):
    t = case["workers"]
    for ev in applied:
        if ev[0] == "sig":
            for s in ev[1][:5]:
                if s == "SIGTTIN":
                    t += 1
                elif s == "SIGTTOU" and t > 1:
                    t -= 1
        elif ev[0] == "hup":
            t = ev[1]
    return t


def run_case(case):
    k = ksim.Kernel(case["sched"], case["events"], quiesce_steps=case["timeout"] + 8)
    out = ksim.run_arbiter(k, {"workers": case["workers"], "timeout": case["timeout"], "graceful_timeout": 3})
    arb = out["arbiter"]
    vio = []

    def V(clause, sig, observed=None, expected=None):
        vio.append(Violation(clause, "C03/" + sig, observed={"detail": observed, "events": k.applied_events, "trace": k.trace[-25:],
                                                             "case": case}, expected=expected))

    deaths = sum(1 for t in k.trace if t[0] == "died")
    boot_err = None
    for t in k.trace:
        if t[0] == "died" and (t[2] >> 8) in (3, 4) and (t[2] & 0xff) == 0:
            boot_err = t[2] >> 8
            break
    resize = any(ev[0] in ("sig", "hup") for ev in k.applied_events)
    fast = any(ev[0] == "fastdeath" for ev in k.applied_events)
    nontrivial = (deaths >= 1 and resize) or fast
    classes = ["timeout:%d" % case["timeout"], "boot-error:%s" % (boot_err is not None), "deaths:%d" % min(deaths, 5),
               "resize:%s" % resize, "fastdeath:%s" % fast]
    if out["error"]:
        V("no-crash", "arbiter-raised:" + out["error"].split(":")[0], out["error"], "run() keeps going")
        return Outcome(vio, nontrivial, classes)
    if boot_err is not None:
        if out["exit"] != boot_err:
            V("boot-failure-halts", "boot-error-%d-did-not-halt" % boot_err, {"exit": out["exit"], "left": out["left"], "forks": k.fork_count},
              {"exit": boot_err})
        return Outcome(vio, nontrivial, classes, sample={"case": case, "exit": out["exit"]})
    if out["exit"] is not None:
        V("keeps-running", "arbiter-exited-%s" % out["exit"], {"exit": out["exit"]}, "still running")
        return Outcome(vio, nontrivial, classes)
    if out["left"] != "history over":
        V("converges", "never-quiescent:" + str(out["left"]).replace(" ", "-"), {"left": out["left"], "forks": k.fork_count}, "events stop => pool settles")
        return Outcome(vio, nontrivial, classes)
    target = model_target(case, k.applied_events)
    live = sorted(p.pid for p in k.live())
    tracked = sorted(arb.WORKERS.keys())
    zombies = [p.pid for p in k.zombies()]
    if zombies:
        V("no-zombies", "zombie-left-at-quiescence", {"zombies": zombies}, "all children reaped")
    elif live != tracked:
        ghosts = [p for p in tracked if p not in live]
        untracked = [p for p in live if p not in tracked]
        if ghosts and not untracked:
            born_dead = any(t[0] == "fork" and t[1] in ghosts for t in k.trace) and fast
            V("tracked-equals-live", "ghost-worker-tracked:%s:timeout=%s" % ("died-inside-fork" if born_dead else "other",
                                                                               "0" if case["timeout"] == 0 else "positive"),
              {"ghosts": ghosts, "live": live, "target": target}, "tracked == live")
        else:
            V("tracked-equals-live", "untracked-live-child", {"live": live, "tracked": tracked}, "tracked == live")
    elif len(live) != target:
        V("converges-to-target", "pool-size-%s-target" % ("below" if len(live) < target else "above"),
          {"live": len(live), "target": target, "num_workers": arb.num_workers}, {"live": target})
    # oldest-first
    if not vio:
        groups = {}
        for e in k.kill_log:
            if e["ctx"].startswith("manage#") and e["sig"] == int(signal.SIGTERM):
                groups.setdefault(e["ctx"], []).append(e)
        for ctx, es in groups.items():
            snap = es[0]["tracked"]
            want = [pid for age, pid in sorted(snap)][:len(es)]
            got = [e["pid"] for e in es]
            if got != want:
                V("oldest-first", "surplus-term-not-oldest-first", {"got": got, "tracked_by_age": snap}, {"want": want})
                break
    return Outcome(vio, nontrivial, classes,
                   sample={"case": case, "target": target, "live": live, "forks": k.fork_count, "kills": len(k.kill_log)})
