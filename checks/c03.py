"""C03 The master keeps exactly the configured number of live workers — engine K (real Arbiter.run on a simulated kernel)."""
import signal

from hypothesis import strategies as st

from vlib.common import Outcome, Violation
from vlib import ksim

PROPERTY = "C03"
RULE = ("initial workers 1-4 x timeout {0,1,2,5,30} x history of up to 12 external events {worker exit with status 0/1/3/4/255 or "
        "signal 9/15/11, TTIN/TTOU bursts of 1-7 signals, HUP with a new worker count, child dying inside fork(), a non-worker child and a worker dying under one SIGCHLD, "
        "every live worker failing to boot one after the other (also during halt()), real-time signals 34-64, a worker exiting at one of the arbiter's next system-call boundaries, a worker that stops responding (only when timeout>0), tick} x the pid counter wrapping after 1-6 forks x a schedule "
        "vector that decides at every fake system call (fork, kill, waitpid, sleep, select) whether a dying child dies there, so that "
        "SIGCHLD's handler runs inside spawn_worker, kill_workers, manage_workers, reload; the real Arbiter.run() executes against the "
        "simulated kernel and is compared with a reference pool model at quiescence (timeout+8 idle seconds after the last event): "
        "live == tracked, |live| == target (TTIN/TTOU clamp at 1, 5-deep signal queue, HUP resets), no zombie, every surplus TERM to the "
        "then-oldest tracked workers, exit status 3/4 of a child => run() leaves with that status. non-trivial = >=1 death and >=1 of "
        "TTIN/TTOU/HUP, or a death inside fork(). Engine R: real kill/TTIN/TTOU/HUP sequences compared with /proc, and real masters whose "
        "workers cannot boot (application module / attribute missing, import raising, post_fork or post_worker_init raising; from the start "
        "or only after a HUP) x worker class: the master exits with status 3/4 within 15 s and leaves no process. distinct by case hash")
ASSUMPTIONS = [
    "signal handlers run at fake system-call boundaries, not between arbitrary bytecodes",
    "a healthy worker exits some boundaries after TERM; hung workers are C11's domain",
    "USR1/USR2/WINCH are outside this property's quantifier and not generated",
]
BUDGET = {"quick": (16, 300), "thorough": (16, 50000)}

STATUS = [0, 1 << 8, 255 << 8, 9, 15, 11, 3, 4, 6, 4 | 0x80, 35, 50 | 0x80, 64, 34, 3 << 8, 4 << 8]   # exit codes (<<8), signals (incl. real-time 34..64), signal+core flag

event = st.one_of(
    st.tuples(st.just("exit"), st.integers(0, 5), st.sampled_from(STATUS)),
    st.tuples(st.just("exit"), st.integers(0, 5), st.sampled_from(STATUS[:14])),
    st.tuples(st.just("sig"), st.lists(st.sampled_from(["SIGTTIN", "SIGTTOU"]), min_size=1, max_size=7)),
    st.tuples(st.just("sig"), st.lists(st.sampled_from(["SIGTTIN", "SIGTTOU"]), min_size=1, max_size=2)),
    st.tuples(st.just("hup"), st.integers(1, 4)),
    st.tuples(st.just("fastdeath"), st.sampled_from([0, 1 << 8, 9, 11, 255 << 8, 35, 11 | 0x80])),
    st.tuples(st.just("coalesced"), st.integers(0, 5), st.sampled_from([0, 1 << 8, 9, 35])),
    st.tuples(st.just("tick")),
    st.tuples(st.just("bootfail"), st.sampled_from([3 << 8, 4 << 8])),
    # a worker stops heart-beating (the timeout scan will signal it: one more place where SIGCHLD can interleave), a worker on its way out
    st.tuples(st.just("hang"), st.integers(0, 3), st.just("hung")),
    st.tuples(st.just("exit_soon"), st.integers(0, 3), st.sampled_from([0, 1 << 8])),
)


def strategy(tier):
    return st.fixed_dictionaries({
        "workers": st.integers(1, 4),
        "timeout": st.sampled_from([0, 1, 2, 5, 30, 30]),
        "events": st.lists(event, min_size=1, max_size=12).map(lambda l: [list(e) for e in l]),
        "sched": st.lists(st.integers(0, 11), max_size=60),
        "pid_wrap": st.sampled_from([None, None, None, 1, 2, 3, 4, 6]),      # the pid counter wraps after that many forks
    })


def extra_cases(tier, seed, shard, nshards):
    """engine R smoke: real masters, real kill -9 / TTIN / TTOU / HUP sequences, /proc compared with the model"""
    import random
    rng = random.Random(seed * 7919 + 17)
    n = 6 if tier == "quick" else 32
    for i in range(n):
        ops = [rng.choice(["kill9", "kill9", "ttin", "ttou", "term-worker", "hup"]) for _ in range(rng.randint(2, 7))]
        c = {"engine": "R", "kind": ["sync", "gthread", "gevent", "eventlet"][i % 4], "workers": rng.randint(1, 3), "ops": ops,
             "gaps": [round(rng.choice([0.0, 0.05, 0.3]), 2) for _ in ops]}
        if i % nshards == shard:
            yield c
    # the surplus worker is busy with a request that never ends when it is asked to stop
    for j, kind in enumerate(["sync", "gthread", "gevent", "eventlet"]):
        if (j + n + 3) % nshards == shard:
            yield {"engine": "Rbusy", "kind": kind}
    # a worker that cannot boot: every site at which booting can fail x worker class (x "only after a reload")
    cells = [(site, late) for site in BOOT_FAILURES for late in (False, True)]
    for j, (site, late) in enumerate(cells):
        if tier == "quick" and late and j % 3 != seed % 3:
            continue
        if (j + n) % nshards == shard:
            yield {"engine": "Rboot", "kind": ["sync", "gthread", "gevent", "eventlet"][(j + seed) % 4], "site": site, "after_hup": late,
                   "workers": 1 + j % 3}


BOOT_FAILURES = {
    # site: (conf lines, environment, application target, expected exit status of the master)
    "app-module-missing": ([], {}, "verif_no_such_module:app", 4),
    "app-attribute-missing": ([], {}, "rapp:no_such_callable", 4),
    "app-import-raises": ([], {"VERIF_RAPP_FAIL_IMPORT": "1"}, "rapp:app", 3),
    "post_fork-raises": (["def post_fork(server, worker):", "    raise RuntimeError('post_fork fails')"], {}, "rapp:app", 3),
    "post_worker_init-raises": (["def post_worker_init(worker):", "    raise RuntimeError('post_worker_init fails')"], {}, "rapp:app", 3),
}


def run_busy_retire(case):
    """engine R: TTIN then TTOU while the oldest worker is inside a request that never finishes: the pool must still come down to the
    requested size (the worker's own graceful timeout, or at the latest the arbiter's timeout scan, ends it)"""
    import signal as sg
    import time
    from vlib import renv
    kind = case["kind"]
    G, T = 2, 4
    srv = renv.Server(kind=kind, workers=None, bind="unix", graceful=G, timeout=T, threads=2 if kind == "gthread" else None,
                      conf_lines=["workers = 1"])
    vio = []
    classes = ["engine:Rbusy", "kind:" + kind]
    c = None
    try:
        if not srv.wait_ready():
            return Outcome([], False, classes + ["inconclusive:not-ready"])
        first = srv.workers()
        c = srv.connect()
        c.sendall(b"GET /hang/b1 HTTP/1.1\r\nHost: x\r\n\r\n")
        if not srv.started("b1"):
            return Outcome([], False, classes + ["inconclusive:request-not-started"])
        srv.signal(sg.SIGTTIN)
        t0 = time.time()
        while time.time() - t0 < 10 and len(srv.workers()) < 2:
            time.sleep(0.05)
        srv.signal(sg.SIGTTOU)
        bound = G + T + 8
        t0 = time.time()
        while time.time() - t0 < bound:
            ws = srv.workers()
            if len(ws) == 1 and ws[0] not in first:
                break
            time.sleep(0.1)
        ws = srv.workers()
        if not (len(ws) == 1 and ws[0] not in first):
            vio.append(Violation("converges-to-target", "C03/real:busy-surplus-worker-never-leaves:" + kind,
                                 observed={"children": ws, "busy_worker": first, "waited_s": bound, "log_tail": srv.logtext()[-800:]},
                                 expected="one worker, the new one"))
        else:
            r, data, err = srv.request("/pid", timeout=5)
            if r is None or not (r.ok and r.status == 200):
                vio.append(Violation("keeps-serving", "C03/real:not-serving-after-history", observed={"error": err, "case": case}, expected="200"))
        return Outcome(vio, True, classes, key="Rbusy|" + kind, sample={"case": case, "final": ws})
    finally:
        if c is not None:
            c.close()
        srv.cleanup()


def run_boot_failure(case):
    """engine R: the master must stop with the distinct status instead of forking replacements for ever"""
    import signal as sg
    import time
    from vlib import renv
    conf, env, target, want = BOOT_FAILURES[case["site"]]
    late = case["after_hup"] and not env and target == "rapp:app"      # only a config-file failure can be introduced by a reload
    base = ["workers = %d" % case["workers"]]
    srv = renv.Server(kind=case["kind"], workers=None, bind="unix", graceful=2, timeout=30, threads=2 if case["kind"] == "gthread" else None,
                      conf_lines=base + ([] if late else conf), env=env, app=target)
    vio = []
    classes = ["engine:Rboot", "kind:" + case["kind"], "site:" + case["site"], "after-hup:%s" % late]
    try:
        if late:
            if not srv.wait_ready():
                return Outcome([], False, classes + ["inconclusive:not-ready"])
            srv.write_conf(base + conf)
            srv.signal(sg.SIGHUP)
        status = srv.wait_exit(15)
        boots = srv.logtext().count("Booting worker with pid")
        if status is None:
            vio.append(Violation("boot-failure-halts", "C03/real:unbootable-worker-respawned-for-ever:" + case["site"],
                                 observed={"case": case, "boots_so_far": boots, "log_tail": srv.logtext()[-1000:]},
                                 expected="master exits with status %d" % want))
        elif status not in (3, 4):
            vio.append(Violation("boot-failure-halts", "C03/real:boot-failure-exit-status-%s:%s" % (status, case["site"]),
                                 observed={"case": case, "status": status, "log_tail": srv.logtext()[-1000:]}, expected=want))
        else:
            time.sleep(0.3)
            left = srv.session_procs()
            if left:
                vio.append(Violation("boot-failure-halts", "C03/real:processes-left-after-boot-failure-halt", observed={"left": left, "case": case},
                                     expected="none"))
        return Outcome(vio, True, classes, key="Rboot|%s|%s|%s" % (case["site"], late, case["kind"]), sample={"case": case, "status": status, "boots": boots})
    finally:
        srv.cleanup()


def run_real(case):
    import os
    import signal as sg
    import time
    from vlib import renv
    srv = renv.Server(kind=case["kind"], workers=None, bind="unix", graceful=2, timeout=30, threads=2 if case["kind"] == "gthread" else None,
                      conf_lines=["workers = %d" % case["workers"]])
    vio = []
    try:
        if not srv.wait_ready():
            return Outcome([], False, ["engine:R", "inconclusive:not-ready"])
        target = case["workers"]
        time.sleep(0.3)
        for op, gap in zip(case["ops"], case["gaps"]):
            ws = srv.workers()
            if op == "kill9" and ws:
                os.kill(ws[0], sg.SIGKILL)
            elif op == "term-worker" and ws:
                os.kill(ws[-1], sg.SIGTERM)
            elif op == "ttin":
                srv.signal(sg.SIGTTIN)
                target += 1
                time.sleep(0.15)          # the master queues at most 5 signals; keep clear of that
            elif op == "ttou":
                srv.signal(sg.SIGTTOU)
                target = target - 1 if target > 1 else target
                time.sleep(0.15)
            elif op == "hup":
                srv.signal(sg.SIGHUP)
                target = case["workers"]
                time.sleep(0.4)
            time.sleep(gap)
        # quiescence
        t0 = time.time()
        last, since = None, time.time()
        while time.time() - t0 < 14:
            w = srv.workers()
            if w != last:
                last, since = w, time.time()
            elif time.time() - since > 1.5:
                break
            time.sleep(0.1)
        final = srv.workers()
        zombies = [p for p in renv.all_pids() if (renv.stat(p) or {}).get("ppid") == srv.pid and renv.stat(p)["state"] == "Z"]
        if len(final) != target:
            vio.append(Violation("converges-to-target", "C03/real:pool-size-%d-target-%d" % (len(final), target),
                                 observed={"case": case, "children": final, "log_tail": srv.logtext()[-1200:]}, expected=target))
        if zombies:
            vio.append(Violation("no-zombies", "C03/real:zombie-children", observed={"zombies": zombies, "case": case}, expected="none"))
        r, data, err = srv.request("/pid", timeout=5)
        if r is None or not (r.ok and r.status == 200):
            vio.append(Violation("keeps-serving", "C03/real:not-serving-after-history", observed={"error": err, "case": case}, expected="200"))
        return Outcome(vio, True, ["engine:R", "kind:" + case["kind"]], sample={"case": case, "final": len(final), "target": target})
    finally:
        srv.cleanup()


def model_target(case, applied):
    t = case["workers"]
    for ev in applied:
        if ev[0] == "sig":
            for s in ev[1][:5]:
                if s == "SIGTTIN":
                    t += 1
                elif s == "SIGTTOU" and t > 1:
                    t -= 1
        elif ev[0] == "hup":
            t = ev[1]
    return t


def run_case(case):
    if case.get("engine") == "R":
        return run_real(case)
    if case.get("engine") == "Rboot":
        return run_boot_failure(case)
    if case.get("engine") == "Rbusy":
        return run_busy_retire(case)
    events = case["events"]
    if case["timeout"] == 0:
        # with the timeout scan disabled nothing can remove a worker that has stopped responding (C11's domain): no hangs then
        events = [e for e in events if e[0] != "hang"]
    k = ksim.Kernel(case["sched"], events, quiesce_steps=case["timeout"] + 8)
    k.pid_wrap = case.get("pid_wrap")
    out = ksim.run_arbiter(k, {"workers": case["workers"], "timeout": case["timeout"], "graceful_timeout": 3})
    arb = out["arbiter"]
    vio = []

    def V(clause, sig, observed=None, expected=None):
        vio.append(Violation(clause, "C03/" + sig, observed={"detail": observed, "events": k.applied_events, "trace": k.trace[-25:],
                                                             "case": case}, expected=expected))

    deaths = sum(1 for t in k.trace if t[0] == "died")
    boot_err = None
    for t in k.trace:
        if t[0] == "died" and (t[2] >> 8) in (3, 4) and (t[2] & 0xff) == 0:
            boot_err = t[2] >> 8
            break
    resize = any(ev[0] in ("sig", "hup") for ev in k.applied_events)
    fast = any(ev[0] == "fastdeath" for ev in k.applied_events)
    nontrivial = (deaths >= 1 and resize) or fast
    classes = ["timeout:%d" % case["timeout"], "boot-error:%s" % (boot_err is not None), "deaths:%d" % min(deaths, 5),
               "resize:%s" % resize, "fastdeath:%s" % fast]
    if out["error"]:
        V("no-crash", "arbiter-raised:" + out["error"].split(":")[0], out["error"], "run() keeps going")
        return Outcome(vio, nontrivial, classes)
    if boot_err is not None:
        if out["exit"] != boot_err:
            V("boot-failure-halts", "boot-error-%d-did-not-halt" % boot_err, {"exit": out["exit"], "left": out["left"], "forks": k.fork_count},
              {"exit": boot_err})
        return Outcome(vio, nontrivial, classes, sample={"case": case, "exit": out["exit"]})
    if out["exit"] is not None:
        V("keeps-running", "arbiter-exited-%s" % out["exit"], {"exit": out["exit"]}, "still running")
        return Outcome(vio, nontrivial, classes)
    if out["left"] != "history over":
        V("converges", "never-quiescent:" + str(out["left"]).replace(" ", "-"), {"left": out["left"], "forks": k.fork_count}, "events stop => pool settles")
        return Outcome(vio, nontrivial, classes)
    target = model_target(case, k.applied_events)
    live = sorted(p.pid for p in k.live())
    tracked = sorted(arb.WORKERS.keys())
    zombies = [p.pid for p in k.zombies()]
    if zombies:
        V("no-zombies", "zombie-left-at-quiescence", {"zombies": zombies}, "all children reaped")
    elif live != tracked:
        ghosts = [p for p in tracked if p not in live]
        untracked = [p for p in live if p not in tracked]
        if ghosts and not untracked:
            born_dead = any(t[0] == "fork" and t[1] in ghosts for t in k.trace) and fast
            V("tracked-equals-live", "ghost-worker-tracked:%s:timeout=%s" % ("died-inside-fork" if born_dead else "other",
                                                                               "0" if case["timeout"] == 0 else "positive"),
              {"ghosts": ghosts, "live": live, "target": target}, "tracked == live")
        else:
            V("tracked-equals-live", "untracked-live-child", {"live": live, "tracked": tracked}, "tracked == live")
    elif len(live) != target:
        V("converges-to-target", "pool-size-%s-target" % ("below" if len(live) < target else "above"),
          {"live": len(live), "target": target, "num_workers": arb.num_workers}, {"live": target})
    # oldest-first
    if not vio:
        groups = {}
        for e in k.kill_log:
            if e["ctx"].startswith("manage#") and e["sig"] == int(signal.SIGTERM):
                groups.setdefault(e["ctx"], []).append(e)
        for ctx, es in groups.items():
            snap = es[0]["tracked"]
            want = [pid for age, pid in sorted(snap)][:len(es)]
            got = [e["pid"] for e in es]
            if got != want:
                V("oldest-first", "surplus-term-not-oldest-first", {"got": got, "tracked_by_age": snap}, {"want": want})
                break
    return Outcome(vio, nontrivial, classes,
                   sample={"case": case, "target": target, "live": live, "forks": k.fork_count, "kills": len(k.kill_log)})
