"""C18 max_requests recycles workers without losing requests — engine W (exact counting rule) + engine R (real server)."""
from hypothesis import strategies as st

from vlib.common import Outcome, Violation
from vlib import wenv, ref_response

PROPERTY = "C18"
RULE = ("(W) max_requests 0..6 x max_requests_jitter 0..3 x drawn jitter value x worker class x connection plan (1-4 pipelined "
        "keep-alive requests per connection, up to 40 connections, up to 4 of them carrying a request that fails - application raising "
        "before / after starting the response, client gone at the first write): the worker object's `alive` flag must turn false exactly at "
        "request number max_requests + jitter-draw, that response must be complete and announce Connection: close, no later request "
        "of that connection is served, and with max_requests=0 the flag never turns false whatever the jitter. (R) real masters with "
        "1-2 workers of every class, max_requests 2..5, sequential and concurrent non-keep-alive clients: every client gets a complete "
        "response, none refused or reset, per-pid served count <= max_requests + jitter + concurrency, pids change; with max_requests=0 "
        "the pid set is stable. non-trivial = a recycle happened (or was correctly absent with jitter > 0); distinct by case hash")
ASSUMPTIONS = [
    "the jitter draw is pinned by replacing gunicorn.workers.base.randint in the harness process (W part)",
    "clients never reuse a connection in the R part (a keep-alive reuse racing a worker exit is an inherent HTTP race)",
]
BUDGET = {"quick": (16, 150), "thorough": (16, 8000)}


t_event = st.one_of(
    st.tuples(st.just("connect")), st.tuples(st.just("connect")),
    st.tuples(st.sampled_from(["send_ka", "send_close"]), st.integers(0, 5)),
    st.tuples(st.sampled_from(["send_ka", "send_close"]), st.integers(0, 5)),
    st.tuples(st.just("handler"), st.integers(0, 3)),
    st.tuples(st.just("time"), st.sampled_from([0.5, 1.0])),
)
t_scene = st.integers(1, 4).map(lambda n: [["connect"]] * n + [["time", 0.5]] + [["send_close", i] for i in range(n)] + [["handler", 0]])


def strategy(tier):
    w = st.fixed_dictionaries({
        "engine": st.just("W"),
        "kind": st.sampled_from(list(wenv.KINDS)),
        "max_requests": st.sampled_from([0, 0, 1, 2, 3, 4, 5, 6]),
        "jitter": st.integers(0, 3),
        "draw": st.integers(0, 3),
        "keepalive": st.sampled_from([0, 2, 2]),
        "plan": st.lists(st.integers(1, 4), min_size=1, max_size=40),
        # connections (by index) whose single request fails: the application raises before / after it started the response, or the
        # client is gone when the response is written - such requests have been handled too and count like any other
        "fails": st.lists(st.tuples(st.integers(0, 12), st.sampled_from(["before_start", "mid", "send_fault", "before_start:OSError", "malformed", "malformed"])).map(list),
                          max_size=4),
    })
    t = st.fixed_dictionaries({
        "engine": st.just("T"),
        "threads": st.integers(1, 2),
        "keepalive": st.sampled_from([0, 2]),
        "max_requests": st.integers(1, 3),
        "events": st.one_of(st.lists(t_event, min_size=2, max_size=25).map(lambda l: [list(e) for e in l]),
                            st.lists(t_scene, min_size=1, max_size=3).map(lambda ls: [e for l in ls for e in l])),
    })
    return st.one_of(w, w, t)


def extra_cases(tier, seed, shard, nshards):
    from checks import c18_real
    cs = c18_real.cells(tier) + [{"engine": "Wlistener", "kind": k} for k in ("gevent", "eventlet")]
    for i, c in enumerate(cs):
        if (i + seed) % nshards == shard:
            yield c


def run_tsim(case):
    """gthread main loop on the scripted poller (engine T) with max_requests: which requests are still answered at the recycle?"""
    from vlib import tsim
    sim = tsim.Sim(case["threads"], 10, case["keepalive"], [list(e) for e in case["events"]], max_requests=case["max_requests"])
    sim.patient_clients = True
    err = tsim.run(sim)
    vio = []
    lost_dispatched, lost_accepted = [], []
    for c in sim.conns:
        sent = c.request_count
        got = b"".join(c.out).count(b"HTTP/1.1 200 OK")
        if c.client_closed or sent == 0 or got >= 1:
            continue
        (lost_dispatched if c.cid in sim.dispatched else lost_accepted).append(c.cid)
    recycled = not sim.worker.alive and sim.app_calls >= case["max_requests"]
    if err:
        vio.append(Violation("loop-survives", "C18/gthread-loop-failed:" + err.split(":")[0], observed={"error": err, "case": case}))
    elif recycled and lost_dispatched:
        vio.append(Violation("in-flight-answered", "C18/dispatched-request-dropped-at-recycle:gthread",
                             observed={"conns": lost_dispatched, "cancelled": sim.cancelled, "trace": sim.trace[-12:], "case": case},
                             expected="requests already handed to the pool are answered"))
    elif recycled and lost_accepted:
        vio.append(Violation("no-request-lost", "C18/request-lost-at-recycle:gthread:sequential",
                             observed={"conns": lost_accepted, "trace": sim.trace[-12:], "case": case},
                             expected="accepted connections are answered"))
    return Outcome(vio, recycled, ["engine:T", "recycled:%s" % recycled, "threads:%d" % case["threads"]],
                   sample={"case": case, "app_calls": sim.app_calls, "lost": [lost_dispatched, lost_accepted]})


def run_closed_listener(case):
    """deterministic form of 'a connection accepted while the acceptor is being stopped': the async workers ask the
    (already closed) listener for its name when the handler starts"""
    import errno
    kind = case["kind"]
    cfg = wenv.make_cfg(keepalive=2, worker_connections=10, max_requests=3)
    app = wenv.AppProgram({"status": "200 OK", "headers": [["Content-Length", "2"]], "mode": "list", "chunks": ["ok"], "read_input": "none"})
    env = wenv.Env(kind, cfg, app)

    class ClosedListener(object):
        def getsockname(self):
            raise OSError(errno.EBADF, "Bad file descriptor")
    env.listener = ClosedListener()
    sock = wenv.FakeSocket([b"GET / HTTP/1.1\r\nHost: h\r\nConnection: close\r\n\r\n"])
    escaped = env.serve(sock)
    r = ref_response.parse_response(sock.received(), 0, "GET")
    vio = []
    if escaped is not None or r is None or not (r.ok and r.complete and r.status == 200):
        vio.append(Violation("no-request-lost", "C18/request-lost-at-recycle:%s:concurrent" % kind,
                             observed={"wire": sock.received()[:200], "escaped": repr(escaped), "calls": len(app.calls), "case": case},
                             expected="the accepted connection is answered"))
    return Outcome(vio, True, ["engine:Wlistener", "kind:" + kind], sample={"case": case})


EXHAUSTIVE_NOTE = "engine R: the listed (worker class x max_requests x jitter x workers x concurrency) cells are all run (quick: 16, thorough: 24)"


def run_case(case):
    if case.get("engine") == "R":
        from checks import c18_real
        return c18_real.run_case(case)
    if case.get("engine") == "Wlistener":
        return run_closed_listener(case)
    if case.get("engine") == "T":
        return run_tsim(case)
    import gunicorn.workers.base as wb
    kind = case["kind"]
    mr, jit = case["max_requests"], case["jitter"]
    draw = min(case["draw"], jit)
    calls_to_randint = []
    orig = wb.randint

    def fake_randint(a, b):
        calls_to_randint.append((a, b))
        return max(a, min(b, draw))

    wb.randint = fake_randint
    try:
        cfg = wenv.make_cfg(keepalive=case["keepalive"], worker_connections=10, threads=2, max_requests=mr, max_requests_jitter=jit)
        prog = {"status": "200 OK", "headers": [["Content-Length", "2"]], "mode": "list", "chunks": ["ok"], "read_input": "none"}
        app = wenv.AppProgram(prog)
        env = wenv.Env(kind, cfg, app)
    finally:
        wb.randint = orig
    vio = []
    limit = mr + draw if mr > 0 else None

    def V(clause, sig, observed=None, expected=None):
        vio.append(Violation(clause, "C18/" + sig, observed={"detail": observed, "case": case}, expected=expected))

    served = 0
    turned_at = None
    fails = dict((f[0], f[1]) for f in case.get("fails", []))
    failed_any = False
    malformed_seen = 0
    for ci, nreq in enumerate(case["plan"]):
        if not env.worker.alive:
            break
        how = fails.get(ci)
        if how:
            nreq = 1
        raw = b"".join(b"GET /%d/%d HTTP/1.1\r\nHost: h\r\n\r\n" % (ci, j) for j in range(nreq))
        if how == "malformed":
            # refused by the server itself (400): whether such a request counts towards the limit is the server's business, but it
            # must not make the worker miss the limit
            raw = b"GET /%d HTTP/1.1\r\nBad Header Line\r\n\r\n" % ci
            malformed_seen += 1
        sock = wenv.FakeSocket([raw], send_fault=(0, 32) if how == "send_fault" else None)
        if how and how not in ("send_fault", "malformed"):
            app.progs = [dict(prog, mode="gen", chunks=["o", "k"], fail=how.split(":")[0], fail_k=1, headers=[],
                              **({"fail_exc": "FileNotFoundError"} if how.endswith(":OSError") else {}))]
        else:
            app.progs = [prog]
        before = len(app.calls)
        escaped = env.serve(sock)
        if escaped is not None:
            V("no-escape", "exception-escaped-handle:" + type(escaped).__name__, repr(escaped))
            break
        n_here = len(app.calls) - before
        if how:
            # no verdict about the response of a failed request; it was handled and counts
            failed_any = True
            served += n_here
            if not env.worker.alive and turned_at is None:
                turned_at = served
            continue
        # all responses of this connection are complete
        wire = sock.received()
        pos = 0
        last = None
        nresp = 0
        while pos < len(wire):
            r = ref_response.parse_response(wire, pos, "GET")
            if r is None or not r.ok or not r.complete or r.errors or r.body != b"ok":
                V("complete-response", "incomplete-response-at-recycle", {"wire": wire[pos:pos + 200], "conn": ci}, "complete responses")
                break
            nresp += 1
            last = r
            pos = r.end
        if vio:
            break
        if nresp != n_here:
            V("complete-response", "calls-and-responses-differ", {"calls": n_here, "responses": nresp}, "equal")
            break
        served += n_here
        if not env.worker.alive and turned_at is None:
            turned_at = served
            if limit is not None and kind != "sync" and case["keepalive"]:
                if last is not None and b"close" not in b",".join(last.header(b"connection")).lower():
                    V("limit-response-closes", "limit-response-announces-keep-alive:" + kind, last.brief(), "Connection: close")
            if n_here < nreq and False:
                pass
    if not vio:
        if limit is None:
            if turned_at is not None:
                V("never-recycled-when-unset", "worker-recycled-with-max-requests-0", {"turned_at": turned_at, "jitter": jit, "draw": draw},
                  "alive stays true")
        else:
            total_possible = sum(case["plan"])
            if turned_at is None:
                # the plan may simply be too short, or a connection ended early (sync serves one request per connection)
                if served >= limit:
                    V("recycle-at-limit", "worker-still-alive-after-limit", {"served": served, "limit": limit}, "alive false at the limit")
            elif not (limit - malformed_seen <= turned_at <= limit):
                V("recycle-at-limit", "recycled-at-%s-limit" % ("before" if turned_at < limit else "after"),
                  {"turned_at": turned_at, "limit": limit, "max_requests": mr, "draw": draw}, {"turned_at": limit})
        if mr > 0 and calls_to_randint and calls_to_randint[0] != (0, jit):
            V("jitter-range", "jitter-drawn-from-wrong-range", {"randint_args": calls_to_randint[:2]}, [0, jit])
    nontrivial = turned_at is not None or (limit is None and jit > 0 and served > 3)
    classes = ["kind:" + kind, "mr:%d" % mr, "recycled:%s" % (turned_at is not None), "keepalive:%d" % case["keepalive"],
               "failed-requests:%s" % failed_any]
    return Outcome(vio, nontrivial, classes, sample={"case": case, "served": served, "turned_at": turned_at, "limit": limit})
