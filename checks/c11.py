"""C11 Hung workers are killed and replaced; healthy workers never are — engine K (virtual time) [+ engine R cases]."""
import signal

from hypothesis import strategies as st

from vlib.common import Outcome, Violation
from vlib import ksim

PROPERTY = "C11"
RULE = ("(K) timeout in {1,2,3,5,10,30,120} x pool size 1-3 x per-worker heartbeat lag drawn in [0, the wait bound the arbiter really "
        "passed to the worker] x history of {worker stops heart-beating, worker stops heart-beating and ignores SIGABRT, worker exit, "
        "TTIN/TTOU, tick} x schedule vector, on the real Arbiter.run() over a simulated kernel with virtual time; two-sided oracle: a hung "
        "worker gets SIGABRT no later than timeout+2 s after its last heartbeat, SIGKILL within 2 s more if it is still there, is reaped "
        "and the pool is back at target at quiescence; a worker whose heartbeat lag stays within its own bound never receives ABRT/KILL "
        "from the timeout scan. (H) the real WorkerTmp heartbeat file and the real Arbiter.murder_workers() on a virtual monotonic clock: "
        "notify() schedules with gaps around 0 / 1 s / 0.5-1.0 x timeout / beyond timeout+1 s, scans once per second at a drawn phase: the file "
        "always records the latest notify(), no signal while the latest notify() is at most `timeout` old, SIGABRT once it is more than "
        "timeout+1 s old. (Tidle) the idle gthread loop with 0-2 parked keep-alive connections: heartbeat period < timeout. "
        "(R) real servers with short timeouts: see c11_real. non-trivial = a hang event occurred, or a healthy "
        "worker had lag > timeout/4; distinct by case hash")
ASSUMPTIONS = [
    "virtual time advances only in select()/sleep(); the scan runs once per idle second as in Arbiter.run()",
    "a healthy worker's heartbeat age is a constant lag <= the wait bound given to it (timeout/2 on the unchanged tree)",
]
BUDGET = {"quick": (16, 250), "thorough": (16, 50000)}

event = st.one_of(
    st.tuples(st.just("hang"), st.integers(0, 3), st.sampled_from(["hung", "hung", "hung-ignore-abrt"])),
    st.tuples(st.just("hang"), st.integers(0, 3), st.sampled_from(["hung", "hung-ignore-abrt"])),
    st.tuples(st.just("exit"), st.integers(0, 3), st.sampled_from([0, 1 << 8, 9])),
    # a worker on its way out by itself: it dies at one of the arbiter's next system-call boundaries (e.g. inside the timeout scan)
    st.tuples(st.just("exit_soon"), st.integers(0, 3), st.sampled_from([0, 0, 1 << 8])),
    st.tuples(st.just("sig"), st.lists(st.sampled_from(["SIGTTIN", "SIGTTOU"]), min_size=1, max_size=2)),
    st.tuples(st.just("hup"), st.integers(1, 3)),
    st.tuples(st.just("hup"), st.integers(1, 3), st.sampled_from([1, 2, 5, 30, 60])),      # reload with another timeout
    st.tuples(st.just("tick")),
    st.tuples(st.just("tick")),
)


def strategy(tier):
    k = st.fixed_dictionaries({
        "engine": st.just("K"),
        "workers": st.integers(1, 3),
        "timeout": st.sampled_from([1, 2, 3, 5, 10, 30, 120]),
        "events": st.lists(event, min_size=1, max_size=10).map(lambda l: [list(e) for e in l]),
        "sched": st.lists(st.integers(0, 11), max_size=60),
    })
    # engine H: the heartbeat file itself. gaps between the worker's notify() calls as fractions of `timeout` (<1: healthy) or absolute
    # small values; the arbiter scans once per second at a drawn phase
    h = st.fixed_dictionaries({
        "engine": st.just("H"),
        "timeout": st.sampled_from([1, 2, 3, 5, 30]),
        "gaps": st.lists(st.one_of(st.sampled_from([0.001, 0.05, 0.3, 0.6, 0.9, 0.99, 1.0, 1.01]),
                                   st.sampled_from(["0.5T", "0.9T", "0.97T", "0.999T", "1.0T"]),
                                   st.sampled_from(["T+1.5", "2T+2"])), min_size=1, max_size=12),
        "phase": st.sampled_from([0.0, 0.001, 0.25, 0.5, 0.75, 0.999]),
    })
    return st.one_of(k, k, k, h)


def run_heartbeat_file(case):
    """engine H: real WorkerTmp + real Arbiter.murder_workers() on a virtual monotonic clock. The heartbeat the arbiter reads is the
    instant of the worker's latest notify(): a worker whose notify() calls are never more than `timeout` apart is never signalled,
    one that stays silent for more than timeout + 1 s is"""
    import gunicorn.arbiter as A
    import gunicorn.workers.workertmp as WT
    from vlib import penv
    T = case["timeout"]
    clock = [5000.0]

    class VTime(object):
        def __getattr__(self, name):
            return getattr(__import__("time"), name)

        def monotonic(self):
            return clock[0]

        def time(self):
            return clock[0]

    def gap(g):
        if isinstance(g, str):
            if g.endswith("T") and "+" not in g:
                return float(g[:-1]) * T
            a, b = g.split("+")
            return (float(a[:-1] or 1) if a.endswith("T") else float(a)) * (T if a.endswith("T") else 1) + float(b)
        return float(g)

    cfg = penv.make_cfg()
    saved = (WT.time, A.time)
    WT.time = A.time = VTime()
    tmp = None
    vio = []
    kills = []
    try:
        tmp = WT.WorkerTmp(cfg)

        class W(object):
            aborted = False
        w = W()
        w.tmp = tmp
        w.timeout = T / 2.0          # the wait bound the arbiter gives a worker at spawn
        arb = A.Arbiter.__new__(A.Arbiter)
        arb.timeout = T
        arb.WORKERS = {4242: w}
        arb.log = type("L", (), {"critical": lambda self, *a, **k: None})()
        arb.kill_worker = lambda pid, sig: kills.append((round(clock[0] - 5000.0, 3), int(sig)))
        tmp.notify()
        last = clock[0]
        scan = 5000.0 + case["phase"]
        worst = 0.0
        silent_too_long = False
        for g in case["gaps"]:
            nxt = last + gap(g)
            while scan <= nxt:
                if scan > clock[0]:
                    clock[0] = scan
                    arb.murder_workers()
                    if kills and clock[0] - last <= T - 1e-4:        # (1e-4: the file keeps the instant with nanosecond rounding)
                        vio.append(Violation("healthy-never-killed", "C11/healthy-worker-signalled:heartbeat-file-stale",
                                             observed={"timeout": T, "since_last_notify": round(clock[0] - last, 4),
                                                       "heartbeat_age_seen_by_arbiter": round(clock[0] - tmp.last_update(), 4), "kills": kills[:2],
                                                       "case": case},
                                             expected="no signal while the latest notify() is at most `timeout` old"))
                        break
                scan += 1.0
            if vio:
                break
            if nxt - last > T + 1.0 and not kills:
                vio.append(Violation("hung-killed", "C11/silent-worker-not-signalled:heartbeat-file", observed={"timeout": T, "silent_for": nxt - last, "case": case},
                                     expected="SIGABRT within timeout + 1 s"))
                break
            if kills:
                silent_too_long = True
                break            # the worker has been told to abort: the history ends here
            clock[0] = nxt
            tmp.notify()
            seen = tmp.last_update()
            if abs(seen - nxt) > 1e-3:
                vio.append(Violation("healthy-never-killed", "C11/heartbeat-file-does-not-record-latest-notify",
                                     observed={"notify_at": round(nxt - 5000.0, 4), "file_says": round(seen - 5000.0, 4), "case": case},
                                     expected="last_update() == instant of the latest notify()"))
                break
            worst = max(worst, nxt - last)
            last = nxt
        near = any(0.9 * T <= gap(g) <= T for g in case["gaps"])
        return Outcome(vio, near or silent_too_long, ["engine:H", "timeout:%d" % T, "near-timeout-gap:%s" % near, "killed:%s" % bool(kills)],
                       sample={"case": case, "kills": kills[:2]})
    finally:
        WT.time, A.time = saved
        if tmp is not None:
            tmp.close()


def run_idle_period(case):
    """engine T, idle gthread loop: how long can an idle, healthy worker go between two heartbeats, compared with `timeout`?
    (the virtual clock advances by exactly what the loop asks its selector / futures.wait to wait for, plus 10 ms per call). `parked`
    idle keep-alive connections (each reached through the real accept / handle / finish_request path) sit in the worker while it
    idles; with worker_connections == parked the connection table is full the whole time."""
    from vlib import tsim
    T = case["timeout"]
    parked = case.get("parked", 0)
    keepalive = case.get("keepalive", 2)
    wc = case.get("wc", 10)
    prefix = []
    for i in range(parked):
        prefix += [["connect"], ["time", 0], ["send_ka", i], ["time", 0], ["handler", 0], ["time", 0]]
    sim = tsim.Sim(2, wc, keepalive, prefix)
    beats = []
    w = sim.build()
    w.timeout = T / 2.0
    w.notify = lambda: (beats.append(sim.clock), sim.on_iteration())
    orig_select = w.poller.select
    idle_from = []
    calls = [0]
    ended = []

    def idle_step(blocks_for):
        if not idle_from:
            idle_from.append(sim.clock)
        sim.clock += blocks_for + 0.01
        calls[0] += 1
        if (sim.clock - idle_from[0] > 2 * T + 3 or calls[0] > 20000) and w.alive:
            w.alive = False
            ended.append(sim.clock)

    def select(timeout=None):
        if sim.ei < len(sim.events):
            return orig_select(timeout)          # the scripted prefix: connections arrive, are served and go idle
        # nothing is ever ready from here on: the call blocks for its full timeout (None = for ever)
        idle_step(86400.0 if timeout is None else timeout)
        return []
    w.poller.select = select
    sim_futures = tsim.SimFutures(sim)

    class IdleFutures(object):
        FIRST_COMPLETED = sim_futures.FIRST_COMPLETED
        ALL_COMPLETED = sim_futures.ALL_COMPLETED

        def wait(self, fs, timeout=None, return_when=None):
            if sim.ei < len(sim.events) or not w.alive:
                return sim_futures.wait(fs, timeout=timeout, return_when=return_when)
            fs = list(fs)
            pending = [f for f in fs if not f.done()]
            # like concurrent.futures.wait: returns at once when nothing is pending, else blocks for the timeout (nothing completes here)
            idle_step((86400.0 if timeout is None else timeout) if pending else 0.0)
            return tsim.Wait(set(f for f in fs if f.done()), set(pending))
    saved = (tsim.G.time, tsim.G.futures)
    tsim.G.time, tsim.G.futures = tsim.SimTime(sim), IdleFutures()
    try:
        w.run()
    finally:
        tsim.G.time, tsim.G.futures = saved
    t0 = idle_from[0] if idle_from else sim.clock
    end = ended[0] if ended else sim.clock          # (what run() does after its loop is over is not part of the idle period)
    marks = [b for b in beats if b <= t0][-1:] + [b for b in beats if t0 < b <= end] + [end]
    gaps = [b - a for a, b in zip(marks, marks[1:])]
    period = max(gaps) if gaps else 0
    vio = []
    full = parked >= wc
    classes = ["engine:Tidle", "timeout:%d" % T, "parked:%d" % parked, "keepalive:%s" % keepalive, "table-full:%s" % full]
    if parked and len([c for c in sim.conns if c.request_count]) < parked:
        return Outcome([], False, classes + ["inconclusive:prefix-did-not-park"], sample={"case": case})
    if period >= T:
        extra = ""
        # (the loop's own 1-s tick plus the tail of the scripted prefix explain up to ~1.6 s: that is the known --timeout 1 finding)
        if full and period > 2.2:
            extra = ":connection-table-full"
        elif parked and period > T / 2.0 + 1e-9 and period > 2.2:
            extra = ":with-idle-keepalive-connections"
        vio.append(Violation("healthy-never-killed", "C11/idle-heartbeat-period-not-below-timeout:gthread" + extra,
                             observed={"heartbeat_period": round(period, 3), "timeout": T, "worker_wait_bound": T / 2.0, "parked": parked,
                                       "keepalive": keepalive, "worker_connections": wc},
                             expected="an idle worker refreshes its heartbeat more often than every `timeout` seconds"))
    return Outcome(vio, True, classes, key="Tidle|%s|%s|%s|%s" % (T, parked, keepalive, wc), sample={"case": case, "period": period, "beats": len(beats)})


def extra_cases(tier, seed, shard, nshards):
    from checks import c11_real
    cs = c11_real.cells(tier) + [{"engine": "Tidle", "timeout": t, "parked": n, "keepalive": ka} for t in (1, 2, 3, 30) for n, ka in ((0, 2), (1, 2), (2, 6), (1, 75))] + [
        {"engine": "Tidle", "timeout": t, "parked": n, "keepalive": 75, "wc": n} for t in (2, 3) for n in (1, 2)]
    for i, c in enumerate(cs):
        if (i + seed) % nshards == shard:
            yield c


EXHAUSTIVE_NOTE = "engine R: every (worker class x hang mode) and (worker class x healthy load shape) cell is run in both tiers"


def run_case(case):
    if case.get("engine") == "R":
        from checks import c11_real
        return c11_real.run_case(case)
    if case.get("engine") == "Tidle":
        return run_idle_period(case)
    if case.get("engine") == "H":
        return run_heartbeat_file(case)
    T0 = case["timeout"]
    # the timeout may change at a reload: see allowed() below for the value a hung worker is judged by; the "healthy workers are
    # never killed" clause holds for every value
    T = max([T0] + [e[2] for e in case["events"] if e[0] == "hup" and len(e) > 2])
    k = ksim.Kernel(case["sched"], case["events"], quiesce_steps=T + 8)
    out = ksim.run_arbiter(k, {"workers": case["workers"], "timeout": T0, "graceful_timeout": 3})
    arb = out["arbiter"]
    vio = []

    def V(clause, sig, observed=None, expected=None):
        vio.append(Violation(clause, "C11/" + sig, observed={"detail": observed, "events": k.applied_events, "trace": k.trace[-20:],
                                                             "case": case}, expected=expected))

    hangs = [t for t in k.trace if t[0] == "hang"]
    healthy_lag = max([p.lag for p in k.procs.values()] or [0])
    nontrivial = bool(hangs) or healthy_lag > T / 4.0
    classes = ["timeout:%d" % T, "hangs:%d" % min(len(hangs), 3), "ignore-abrt:%s" % any(h[2] == "hung-ignore-abrt" for h in hangs)]
    if out["error"] or out["exit"] is not None or out["left"] != "history over":
        V("keeps-running", "arbiter-stopped:%s" % (out["error"] or out["exit"] or out["left"]), out, "run() keeps going")
        return Outcome(vio, nontrivial, classes)
    # healthy workers are never murdered
    for e in k.kill_log:
        if e["ctx"] == "murder" and e["mode"] == "healthy" and e["sig"] in (int(signal.SIGABRT), int(signal.SIGKILL)):
            # "old generation" = the worker was given its wait bound under a larger timeout than the one it is judged by now (that
            # includes a worker forked for a TTIN that was queued just in front of the HUP, which is not yet in the process table when
            # the HUP event is applied)
            old_gen = bool(e.get("master_timeout") and e["wtimeout"] * 2 > e["master_timeout"])
            V("healthy-never-killed", "healthy-worker-killed-by-timeout-scan" + (":old-generation-after-timeout-lowered" if old_gen else ""),
              {"kill": e, "heartbeat_age": e["hb_age"], "worker_wait_bound": e["wtimeout"], "timeout": T},
              "no ABRT/KILL for a worker whose heartbeat age stays within its bound")
            break
    # hung workers are aborted, then killed, in time.  The timeout a worker is judged by: the one configured when it was forked, or
    # any value configured later (a reload may change it) - but not one that was replaced before the worker existed
    timeline = [(0.0, T0)] + [(ev[3], ev[2]) for ev in k.applied_events if ev[0] == "hup" and len(ev) == 4 and isinstance(ev[2], int) and ev[2] > 0]

    def allowed(proc):
        before = [t for (at, t) in timeline if at < proc.born - 1e-9]
        since = [t for (at, t) in timeline if at >= proc.born - 1e-9]
        return max(before[-1:] + since)

    if not vio:
        for _, pid, mode, when in hangs:
            p = k.procs[pid]
            hb = p.hb
            Tw = allowed(p)
            sigs = [(t, s) for (t, s) in p.signals]
            died = [t for t in k.trace if t[0] == "died" and t[1] == pid]
            abrt = [t for (t, s) in sigs if s == int(signal.SIGABRT)]
            kill = [t for (t, s) in sigs if s == int(signal.SIGKILL)]
            other_death = died and not abrt and not kill        # e.g. TERM'd as surplus / exit event before the scan
            if other_death:
                continue
            if p.state == "alive" and not abrt and p.die_in is None:
                V("hung-aborted", "hung-worker-never-aborted", {"pid": pid, "last_heartbeat": hb, "end": k.clock, "signals": sigs},
                  "SIGABRT within timeout+2")
                break
            if abrt and abrt[0] > hb + Tw + 2 + 1e-6:
                V("hung-aborted", "hung-worker-aborted-late", {"pid": pid, "abort_after": abrt[0] - hb, "timeout": Tw, "born": p.born,
                                                               "timeouts_configured": timeline}, "<= timeout+2")
                break
            if mode == "hung-ignore-abrt" and abrt:
                if not kill:
                    if p.state == "alive":
                        V("escalate-to-kill", "worker-ignoring-abrt-never-killed", {"pid": pid, "signals": sigs, "end": k.clock},
                          "SIGKILL on the scan after SIGABRT")
                        break
                elif kill[0] > abrt[0] + (2 if T == T0 and not any(e[0] == "hup" and len(e) > 2 for e in case["events"]) else T + 2) + 1e-6:
                    V("escalate-to-kill", "kill-escalation-late", {"abrt": abrt[0], "kill": kill[0]}, "<= 2 s after SIGABRT")
                    break
            if p.state != "gone":
                V("hung-replaced", "hung-worker-not-reaped", {"pid": pid, "state": p.state}, "reaped")
                break
    if not vio:
        target = case["workers"]
        for ev in k.applied_events:
            if ev[0] == "sig":
                for s in ev[1][:5]:
                    target = target + 1 if s == "SIGTTIN" else (target - 1 if target > 1 else target)
            elif ev[0] == "hup":
                target = ev[1]
        live = sorted(p.pid for p in k.live())
        if live != sorted(arb.WORKERS) or len(live) != target:
            V("pool-restored", "pool-not-restored-after-hang", {"live": live, "tracked": sorted(arb.WORKERS), "target": target},
              "target live workers")
    return Outcome(vio, nontrivial, classes, sample={"case": case, "hangs": hangs, "kills": [(e["t"], e["pid"], e["sig"], e["ctx"]) for e in k.kill_log][:8]})
