"""C11, engine R: hung workers on real processes (short timeouts) and healthy workers under load."""
import os
import signal
import socket
import threading
import time

from vlib.common import Outcome, Violation
from vlib import renv

def cells(tier):
    out = []
    for kind in ("sync", "gthread", "gevent", "eventlet"):
        for mode in ("app-block", "sigstop", "ignore-abrt"):
            if kind == "gthread" and mode != "sigstop":
                continue        # a blocked handler thread does not stop the gthread main loop's heartbeat: not a hang of the worker
            out.append({"engine": "R", "what": "hang", "kind": kind, "mode": mode})
        for load in ("idle", "half-timeout-requests", "backlog"):
            out.append({"engine": "R", "what": "healthy", "kind": kind, "load": load})
    # a request of 0.85 x timeout that starts shortly after the previous heartbeat (sync: one heartbeat per accepted connection)
    out.append({"engine": "R", "what": "healthy", "kind": "sync", "load": "late-long-request", "timeout": 12})
    # a sync worker that serves two listeners runs another main loop (run_for_multiple) with its own heartbeat calls
    out.append({"engine": "R", "what": "hang", "kind": "sync", "mode": "app-block", "two_binds": True})
    out.append({"engine": "R", "what": "hang", "kind": "sync", "mode": "sigstop", "two_binds": True})
    out.append({"engine": "R", "what": "healthy", "kind": "sync", "load": "half-timeout-requests", "two_binds": True})
    out.append({"engine": "R", "what": "healthy", "kind": "sync", "load": "idle", "two_binds": True})
    return out


def run_case(case):
    kind = case["kind"]
    classes = ["engine:R", "kind:" + kind, "what:" + case["what"], "mode:" + str(case.get("mode") or case.get("load"))]
    conf = []
    if case.get("mode") == "ignore-abrt":
        conf = ["import signal", "def post_worker_init(worker):", "    signal.signal(signal.SIGABRT, signal.SIG_IGN)"]
    T = case.get("timeout", 2)
    second = None
    if case.get("two_binds"):
        import tempfile
        second = os.path.join(tempfile.gettempdir(), "verif-c11-second-%d-%d.sock" % (os.getpid(), int(time.time() * 1000) % 100000))
        classes.append("two-listeners")
    srv = renv.Server(kind=kind, workers=2 if case["what"] == "hang" else 1, bind="tcp", graceful=2, timeout=T,
                      threads=2 if kind == "gthread" else None, conf_lines=conf, keepalive=1,
                      extra_binds=["unix:" + second] if second else ())
    vio = []

    def V(clause, sig, observed=None, expected=None):
        vio.append(Violation(clause, "C11/" + sig, observed={"detail": observed, "case": case, "log_tail": srv.logtext()[-1500:]},
                             expected=expected))

    try:
        if not srv.wait_ready():
            return Outcome([], False, classes + ["inconclusive:not-ready"], sample={"case": case})
        time.sleep(0.5)
        if case["what"] == "hang":
            before = srv.workers()
            if len(before) != 2:
                return Outcome([], False, classes + ["inconclusive:workers"], sample={"case": case})
            mode = case["mode"]
            c = None
            if mode == "sigstop":
                victim = before[0]
                os.kill(victim, signal.SIGSTOP)
            else:
                c = srv.connect()
                path = "/hang/h1" if kind == "sync" else "/busy/30"
                c.sendall(("GET %s HTTP/1.1\r\nHost: x\r\n\r\n" % path).encode())
                if kind == "sync":
                    srv.started("h1")
                    victim = int(open(srv.scratch + "/started-h1").read())
                else:
                    time.sleep(0.5)
                    victim = None
            t0 = time.time()
            others_ok = 0
            others_bad = []
            replaced = None
            while time.time() - t0 < T + 8:
                now = srv.workers()
                gone = [p for p in before if p not in now]
                new = [p for p in now if p not in before]
                if gone and new and replaced is None:
                    replaced = time.time() - t0
                    if victim is None:
                        victim = gone[0]
                if replaced is not None and time.time() - t0 > replaced + 0.6:
                    break
                r, data, err = srv.request("/pid", timeout=3)
                if r is not None and r.ok and r.status == 200:
                    others_ok += 1
                elif kind == "sync" or mode == "sigstop":
                    pass        # the request may have landed on the hung worker: not judged
                time.sleep(0.1)
            if c is not None:
                c.close()
            if replaced is None:
                V("hung-killed", "hung-worker-not-replaced:%s:%s" % (kind, mode), {"before": before, "after": srv.workers()},
                  "gone and replaced within timeout+6 s")
            elif replaced > T + 6:
                V("hung-killed", "hung-worker-replaced-late:%s:%s%s" % (kind, mode, ":two-listeners" if case.get("two_binds") else ""), {"after_s": round(replaced, 2)}, "<= timeout+6 s")
            if others_ok == 0:
                V("rest-keeps-serving", "nothing-served-while-a-worker-hangs:" + kind, None, "the other worker answers")
            if victim and renv.alive(victim):
                try:
                    os.kill(victim, signal.SIGCONT)
                except OSError:
                    pass
                time.sleep(0.3)
                if renv.alive(victim) and victim in srv.workers():
                    V("hung-killed", "hung-worker-still-alive:%s:%s" % (kind, mode), {"pid": victim}, "killed")
            return Outcome(vio, True, classes, key="R|hang|%s|%s|%s" % (kind, mode, bool(case.get("two_binds"))), sample={"case": case, "replaced_after": replaced})
        # ---- healthy workers are never killed
        before = srv.workers()
        load = case["load"]
        stop = [False]
        results = []

        def one(path):
            r, data, err = srv.request(path, timeout=T * 4 + 4)
            results.append((r is not None and r.ok and r.status == 200 and r.complete, err))

        threads = []
        t0 = time.time()
        if load == "late-long-request":
            # two quick requests a bit more than timeout/4 apart (the second one is then certainly preceded by a heartbeat),
            # and a bit less than timeout/4 later a healthy request of 0.9 x timeout
            one("/pid")
            time.sleep(T / 4.0 + 0.2)
            one("/pid")
            time.sleep(T / 4.0 - 0.3)
            one("/slow/%.2f" % (0.88 * T))
        elif load == "half-timeout-requests":
            while time.time() - t0 < 3 * T:
                one("/slow/%.1f" % (T / 2.0))
        elif load == "backlog":
            # more queued connections than the worker can drain within `timeout`: it never goes idle
            for i in range(60):
                th = threading.Thread(target=one, args=("/slow/0.1",), daemon=True)
                th.start()
                threads.append(th)
            for th in threads:
                th.join(3 * T + 10)
        else:
            time.sleep(3 * T)
        time.sleep(0.3)
        after = srv.workers()
        log = srv.logtext()
        if "WORKER TIMEOUT" in log or after != before:
            V("healthy-never-killed", "healthy-worker-killed:%s:%s" % (kind, load), {"before": before, "after": after,
                                                                                       "timeout_lines": [l for l in log.splitlines() if "TIMEOUT" in l][:3]},
              "no WORKER TIMEOUT, same pids")
        bad = [r for r in results if not r[0]]
        if bad and not vio:
            V("healthy-serves", "requests-failed-on-healthy-worker:%s:%s" % (kind, load), {"bad": len(bad), "of": len(results), "first": bad[0]},
              "all answered")
        return Outcome(vio, load != "idle", classes, key="R|healthy|%s|%s|%s" % (kind, load, bool(case.get("two_binds"))), sample={"case": case, "requests": len(results)})
    finally:
        srv.cleanup()
        if second:
            try:
                os.unlink(second)
            except OSError:
                pass
