"""C15 The WSGI environ faithfully reflects the request that was received — engine W + reference mapping."""
import os
import re

from hypothesis import strategies as st

from vlib.common import Outcome, Violation
from vlib import wenv

PROPERTY = "C15"
RULE = ("request targets in origin / absolute / '//'-prefixed / asterisk form built from segments with percent-escapes (valid, "
        "%00, %0a, %2f, invalid %zz, trailing %), raw bytes 0x01-0xff except SP, queries and fragments x methods x HTTP/1.0|1.1 x "
        "header lists with repeats, empty values, OWS, obs-text x SCRIPT_NAME via process environment or forwarder header (front end on the loopback, or a listed LAN peer with a different local address) x worker "
        "class; the environ the application received through the real handle() is compared with an independent RFC 3875 / PEP 3333 "
        "mapping of the raw request bytes (REQUEST_METHOD, RAW_URI, SERVER_PROTOCOL, QUERY_STRING, CONTENT_LENGTH, CONTENT_TYPE, "
        "every HTTP_*, PATH_INFO, SCRIPT_NAME). non-trivial = accepted request whose target has an escape, a byte >= 0x80 or a CTL, "
        "or a repeated field; distinct by case hash")
ASSUMPTIONS = [
    "fragment handling follows the suite-pinned behaviour (split at '#')",
    "a repeated Content-Type / Content-Length may be any one of the sent values or their join",
    "an absolute-form target with an empty path may map to '' or '/'",
    "targets outside the four forms named in the statement carry no expectation; rejected requests carry none either",
]
BUDGET = {"quick": (16, 800), "thorough": (16, 30000)}

SEG = ["a", "b", "docs", "%2541", "%252F", "%25", "%2520x", "%41", "%2f", "%2F", "%00", "%0a", "%zz", "%", "%4", "caf\xe9", "\xff", "\x80", "%e9", "%C3%A9", "x;y=1",
       "a+b", "~", ".", "..", "a:b", "@", "\x7f", "\t", "\x01", "\x0b", "\n", "\r", "[", "]", "{}", "a\\b", "\"", "<>", "^", "|", "`", ""]
QRY = ["", "x=1", "a=b&c=d", "q=%20", "q=caf\xe9", "q=\xff", "a=1?b=2", "=", "%zz", "\t", "a\tb", "#", "x=1#frag", "#frag?x"]


@st.composite
def target_st(draw):
    form = draw(st.sampled_from(["origin", "origin", "origin", "absolute", "dblslash", "asterisk"]))
    if form == "asterisk":
        return form, "*"
    segs = draw(st.lists(st.sampled_from(SEG), min_size=0, max_size=4))
    if draw(st.integers(0, 3)):
        segs = [x for x in segs if not any(ord(c) < 0x21 or ord(c) == 0x7f for c in x)]      # CTLs are (rightly) rejected: keep them rare
    path = "/" + "/".join(segs)
    if form == "dblslash":
        path = "/" + path
    if form == "absolute":
        pre = draw(st.sampled_from(["http://example.com", "https://example.com:8443", "http://h", "HTTP://EXAMPLE.COM", "http://u@h:80"]))
        path = pre + (path if draw(st.integers(0, 5)) else "")
    q = draw(st.sampled_from(QRY))
    if q:
        path += ("" if q.startswith("#") else "?") + q
    return form, path


HDR_NAMES = ["X-A", "x-a", "X-B", "Accept", "Cookie", "User-Agent", "Content-Type", "X-Long-Header-Name", "Referer", "Authorization",
             # ordinary (dash-spelled) names whose CGI form collides with a variable the server sets itself
             "Script-Name", "SCRIPT-NAME", "Path-Info", "Server-Protocol", "Remote-Addr", "Request-Method", "Query-String", "Raw-Uri"]
HDR_VALS = ["v", "a, b", "", "text/plain", "caf\xe9", "\xff", "x=1; y=2", "a\tb", "  padded  ", "\x01", "\x7f", "w" * 200, "a,b", ",",
            "\x0bv", "v\x0c", "\x85x", "voil\xc3\xa0", "\x1fz\x1c", "\xa0", " \xa0 ", "x\x1d", "\x1ey", "/a", "/nope", "/"]


def strategy(tier):
    return st.fixed_dictionaries({
        "kind": st.sampled_from(list(wenv.KINDS)),
        "method": st.sampled_from(["GET", "POST", "PUT", "DELETE", "OPTIONS", "HEAD", "PATCH", "M-SEARCH", "PROPFIND"]),
        "version": st.sampled_from(["1.1", "1.1", "1.0"]),
        "target": target_st(),
        "headers": st.lists(st.tuples(st.sampled_from(HDR_NAMES), st.sampled_from(HDR_VALS)).map(list), min_size=0, max_size=6),
        "body": st.sampled_from(["", "", "abc"]),
        # the same request is sent 1-3 times on one connection (keep-alive workers serve them all); a body may travel chunked, with trailers
        "times": st.sampled_from([1, 1, 2, 3]),
        # where the front end sits: on the loopback (default allow list), or on the LAN (listed peer 192.0.2.5, gunicorn reached at 192.0.2.10)
        "front": st.sampled_from(["loopback", "loopback", "lan"]),
        "listener": st.sampled_from(["tcp", "tcp", "unix", "tcp6"]),       # what the connection's listener is bound to
        "chunked": st.sampled_from([None, None, "plain", "trailers"]),
        # Expect: 100-continue at a drawn position among the headers; the interim response may fail to be sent (client gone)
        "expect": st.one_of(st.none(), st.none(), st.tuples(st.integers(0, 6), st.sampled_from(["ok", "send-fails", "send-fails"])).map(list)),
        "send_errno": st.sampled_from([32, 104, 11, 4, 110]),
        "prefix_sn": st.integers(0, 3),
        "script_name": st.sampled_from([None, None, None, ["env", "/a"], ["hdr", "/a"], ["env", "/docs"], ["hdr", "/%41"], ["env", "/"],
                                        ["hdr", "/caf\xe9"]]),
    })


def split_target(form, t):
    """reference split of the raw target -> (path_raw, query) or None when outside the statement"""
    if form == "asterisk":
        return "*", ""
    if form == "absolute":
        m = re.match(r"^[A-Za-z][A-Za-z0-9+.\-]*://[^/?#]*", t)
        if not m:
            return None
        rest = t[m.end():]
    else:
        rest = t
    cut = len(rest)
    for i, ch in enumerate(rest):
        if ch in "?#":
            cut = i
            break
    path = rest[:cut]
    query = ""
    if cut < len(rest) and rest[cut] == "?":
        q = rest[cut + 1:]
        query = q.split("#", 1)[0]
    return path, query


def pct_decode(s):
    b = s.encode("latin-1")
    out = bytearray()
    i = 0
    hexd = b"0123456789abcdefABCDEF"
    while i < len(b):
        if b[i] == 0x25 and i + 2 < len(b) and b[i + 1] in hexd and b[i + 2] in hexd:
            out.append(int(b[i + 1:i + 3], 16))
            i += 3
        else:
            out.append(b[i])
            i += 1
    return out.decode("latin-1")


def extra_cases(tier, seed, shard, nshards):
    for i, k in enumerate(list(wenv.KINDS)):
        if (i + seed) % nshards == shard:
            yield {"engine": "R", "kind": k}


EXHAUSTIVE_NOTE = "engine R: one reload history of the configured mount point (SCRIPT_NAME through raw_env) per worker class"


def run_real(case):
    """engine R: SCRIPT_NAME "as configured" across reloads: set through raw_env, kept by a HUP, changed by a HUP, removed by a HUP"""
    import signal
    import time
    from vlib import renv
    kind = case["kind"]
    srv = renv.Server(kind=kind, workers=None, bind="unix", graceful=2, timeout=30, threads=2 if kind == "gthread" else None,
                      conf_lines=["workers = 1", "raw_env = ['SCRIPT_NAME=/app']"])
    vio = []

    def V(sig, observed, expected):
        vio.append(Violation("split-from-script-name-as-configured", "C15/real:" + sig, observed={"detail": observed, "case": case,
                                                                                                "log_tail": srv.logtext()[-600:]}, expected=expected))

    def probe(label, want_script, want_path, target="/app/x%20y"):
        r, data, err = srv.request(target, timeout=5)
        body = r.body.decode("latin-1") if r is not None and r.ok else ""
        m = re.search(r"script=(\S*) path=(.*)$", body.strip())
        got = (m.group(1), m.group(2)) if m else None
        if got != (want_script, want_path):
            V("script-name-or-path-info-differs:" + label, {"got": got, "status": getattr(r, "status", None), "error": err}, [want_script, want_path])
            return False
        return True

    def reload(lines):
        before = srv.workers()
        srv.write_conf(["workers = 1"] + lines)
        srv.signal(signal.SIGHUP)
        t0 = time.time()
        while time.time() - t0 < 10 and (set(srv.workers()) & set(before) or not srv.workers()):
            time.sleep(0.05)
        time.sleep(0.3)

    try:
        if not srv.wait_ready(path="/app/pid"):
            return Outcome([], False, ["engine:R", "inconclusive:not-ready"])
        ok = probe("configured-at-start", "/app", "/x y")
        if ok:
            reload(["raw_env = ['SCRIPT_NAME=/app']"])
            ok = probe("kept-by-reload", "/app", "/x y")
        if ok:
            reload(["raw_env = ['SCRIPT_NAME=/other']"])
            ok = probe("changed-by-reload", "/other", "/z", target="/other/z")
        if ok:
            reload(["raw_env = ['UNRELATED=1']"])
            ok = probe("removed-by-reload", "", "/app/x y")
        if ok:
            reload([])
            ok = probe("still-removed-after-another-reload", "", "/other/z", target="/other/z")
        return Outcome(vio, True, ["engine:R", "kind:" + kind], key="R|" + kind, sample={"case": case})
    finally:
        srv.cleanup()


def run_case(case):
    if case.get("engine") == "R":
        return run_real(case)
    form, target = case["target"]
    hdrs = [list(h) for h in case["headers"]]
    sn = case.get("script_name")
    if sn and case.get("prefix_sn") and form == "origin" and sn[1] != "/":
        target = sn[1] + target
    old_env = os.environ.get("SCRIPT_NAME")
    if sn and sn[0] == "hdr":
        hdrs.append(["SCRIPT_NAME", sn[1]])
    body = case["body"] if case["method"] in ("POST", "PUT", "PATCH") else ""
    ex = case.get("expect")
    if ex:
        hdrs.insert(min(ex[0], len(hdrs)), ["Expect", "100-continue"])
    lines = ["%s %s HTTP/%s" % (case["method"], target, case["version"]), "Host: example.com"]
    for k, v in hdrs:
        lines.append("%s: %s" % (k, v))
    chunked = case.get("chunked") if body and case["version"] == "1.1" else None
    if body and chunked:
        lines.append("Transfer-Encoding: chunked")
        hdrs.append(["Transfer-Encoding", "chunked"])
        body = "%x\r\n%s\r\n0\r\n%s\r\n" % (len(body), body, "X-Checksum: abc123\r\nX-Seq: 1\r\n" if chunked == "trailers" else "")
    elif body:
        lines.append("Content-Length: %d" % len(body))
        hdrs.append(["Content-Length", str(len(body))])
    raw = ("\r\n".join(lines) + "\r\n\r\n" + body).encode("latin-1") * case.get("times", 1)
    prog = {"status": "200 OK", "headers": [], "mode": "list", "chunks": ["ok"], "read_input": "none"}
    app = wenv.AppProgram(prog)
    lan = case.get("front") == "lan" and case.get("listener") in (None, "tcp")
    cfg = wenv.make_cfg(keepalive=2, worker_connections=10, threads=2, **({"forwarded_allow_ips": "192.0.2.5"} if lan else {}))
    env = wenv.Env(case["kind"], cfg, app)
    env.listener = wenv.FakeListener({"unix": "/run/verif/gunicorn.sock", "tcp6": ("::1", 8000, 0, 0)}.get(case.get("listener"), ("127.0.0.1", 8000)))
    sock = wenv.FakeSocket([raw], send_fault=(0, case.get("send_errno", 32)) if ex and ex[1] == "send-fails" else None)
    if lan:
        sock.peer, sock.local = ("192.0.2.5", 50000), ("192.0.2.10", 8000)
    try:
        if sn and sn[0] == "env":
            os.environ["SCRIPT_NAME"] = sn[1]
        else:
            os.environ.pop("SCRIPT_NAME", None)
        escaped = env.serve(sock)
    finally:
        if old_env is None:
            os.environ.pop("SCRIPT_NAME", None)
        else:
            os.environ["SCRIPT_NAME"] = old_env
    vio = []
    classes = ["form:" + form, "kind:" + case["kind"]]
    if escaped is not None:
        vio.append(Violation("no-escape", "C15/exception-escaped-handle:" + type(escaped).__name__, repr(escaped)))
    tb = target.encode("latin-1")
    has_ctl = any(c < 0x21 or c == 0x7f for c in tb)
    special = ("%" in target) or any(c >= 0x80 for c in tb) or has_ctl
    if not app.calls:
        classes.append("rejected")
        plain = re.match(r"^[/A-Za-z0-9._~\-]*\Z", target) and all(re.match(r"^[ -~]*\Z", v) for _, v in hdrs)
        if plain and not (sn and not target.startswith(sn[1])) and not (ex and ex[1] == "send-fails"):
            vio.append(Violation("plain-accepted", "C15/plain-request-rejected", {"raw": raw[:300], "wire": sock.received()[:200]},
                                 "accepted"))
        return Outcome(vio, False, classes, sample={"target": target, "accepted": False})
    envs = [c["environ"] for c in app.calls]
    e = envs[0]
    exp = {"REQUEST_METHOD": case["method"], "RAW_URI": target, "SERVER_PROTOCOL": "HTTP/" + case["version"]}
    sp = split_target(form, target)
    script_name = sn[1] if sn else ""
    if sp is not None:
        path_raw, query = sp
        exp["QUERY_STRING"] = query
        if path_raw.startswith(script_name):
            exp["SCRIPT_NAME"] = script_name
            exp["PATH_INFO"] = pct_decode(path_raw[len(script_name):])
    # header mapping
    http = {}
    ctype = []
    clen = []
    for k, v in [["Host", "example.com"]] + hdrs:
        v = v.strip(" \t")
        ku = k.upper()
        if ku == "CONTENT-TYPE":
            ctype.append(v)
            continue
        if ku == "CONTENT-LENGTH":
            clen.append(v)
            continue
        key = "HTTP_" + ku.replace("-", "_")
        http[key] = (http[key] + "," + v) if key in http else v
    exp.update(http)
    repeated = len(set(k.upper() for k, _ in hdrs)) < len(hdrs)

    def V(key, got, want):
        tag = key if not key.startswith("HTTP_") else "HTTP_*"
        extra = ""
        if key in ("PATH_INFO", "QUERY_STRING"):
            pb = (sp[0] if key == "PATH_INFO" else sp[1]).encode("latin-1")
            if any(c in (9, 10, 13) for c in pb) or (pb[:1] and pb[0] <= 0x20) :
                extra = ":tab-cr-lf-or-leading-c0-removed"
            elif any(c >= 0x80 for c in pb):
                extra = ":raw-high-byte"
        vio.append(Violation("environ-equals-request", "C15/%s-differs%s" % (tag, extra),
                             observed={"key": key, "got": got, "target": target, "script_name": sn},
                             expected={"want": want}))

    for ei, e in enumerate(envs):
        _compare(e, exp, form, sp, V, vio, ctype, clen)
        if vio:
            if ei:
                vio[-1].signature += ":request-%d-on-the-connection" % (ei + 1)
            break
    e = envs[0]
    classes += ["accepted", "special:%s" % special, "repeat:%s" % repeated, "script_name:%s" % (sn[0] if sn else "no"),
                "ctl:%s" % has_ctl, "calls:%d" % len(envs), "chunked:%s" % chunked]
    return Outcome(vio, special or repeated or len(envs) > 1, classes,
                   sample={"target": target, "form": form, "headers": hdrs[:4], "script_name": sn,
                           "PATH_INFO": e.get("PATH_INFO"), "QUERY_STRING": e.get("QUERY_STRING")})


def _compare(e, exp, form, sp, V, vio, ctype, clen):
    for key, want in exp.items():
        got = e.get(key)
        if key == "PATH_INFO" and form == "absolute" and sp and sp[0] == "" and got in ("", "/"):
            continue
        if got != want:
            V(key, got, want)
            break
    else:
        for key in e:
            if key.startswith("HTTP_") and key not in exp:
                vio.append(Violation("environ-equals-request", "C15/HTTP_*-invented", observed={"key": key, "got": e[key]},
                                     expected="absent"))
                break
        if ctype:
            if e.get("CONTENT_TYPE") not in ctype + [",".join(ctype)]:
                V("CONTENT_TYPE", e.get("CONTENT_TYPE"), ctype)
        elif "CONTENT_TYPE" in e:
            V("CONTENT_TYPE", e.get("CONTENT_TYPE"), None)
        if clen:
            if e.get("CONTENT_LENGTH") not in clen:
                V("CONTENT_LENGTH", e.get("CONTENT_LENGTH"), clen)
        elif "CONTENT_LENGTH" in e:
            V("CONTENT_LENGTH", e.get("CONTENT_LENGTH"), None)
