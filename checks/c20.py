"""C20 Workers always run with exactly the configured user and group — engine R (needs root)."""
import grp
import hashlib
import itertools
import os
import pwd
import signal
import time

from vlib.common import Outcome, Violation
from vlib import renv

PROPERTY = "C20"
RULE = ("user/group spellings {name, numeric id, only user, only group, user with a foreign primary group} over accounts present in the "
        "image x initgroups on/off x worker class x bind {tcp, unix} x generation history {worker killed, HUP, USR2, HUP with the unix "
        "bind moved}, on a real master run as root from the working tree (timeout=2 so that a worker that cannot use its heartbeat "
        "file would be killed). Oracle: for every worker pid of every generation /proc/<pid>/status shows Uid and Gid = 4 x the "
        "configured id, Groups = getgrouplist(user, gid) with initgroups; the ids the application reports from inside a request agree; "
        "the master stays 0/0; workers outlive 2 x timeout; a unix socket is owned uid:gid. A server that refuses to start is not a "
        "violation. non-trivial = a generation other than the first was observed; distinct by cell")
ASSUMPTIONS = [
    "requires root (the sandbox runs as root); without root the check is inconclusive",
    "accounts used: nobody/nogroup (65534), daemon (1), games (uid 5, gid 60), man (uid 6, gid 12); no account in the image has supplementary groups, so the "
    "initgroups oracle compares with getgrouplist(user, gid) = [gid]",
]
BUDGET = {"quick": (16, 0), "thorough": (16, 0)}

SPELLINGS = [
    ("nobody", "nogroup"), ("65534", "65534"), ("nobody", None), (None, "nogroup"), ("nobody", "games"), ("daemon", "daemon"),
    (None, "65534"), ("1", None), ("54321", "nogroup"),
    ("games", "games"), ("man", "man"),       # the same NAME in passwd and group, with different numeric ids (5/60, 6/12)
]
HISTORIES = ["kill", "hup", "usr2", "hup-rebind", "hup-gain"]      # hup-gain: started without user/group, the reloaded config file brings them
KINDS = ["sync", "gthread", "gevent", "eventlet"]


def cells():
    for (u, g), ig, hist, bind in itertools.product(SPELLINGS, [False, True], HISTORIES, ["tcp", "unix"]):
        if hist == "hup-rebind" and bind != "unix":
            continue
        yield {"user": u, "group": g, "initgroups": ig, "history": hist, "bind": bind}
    # the master's own primary group already equals the configured one (e.g. `sg nogroup gunicorn ...`), supplementary groups differ
    for hist, bind in itertools.product(["kill", "hup"], ["tcp", "unix"]):
        yield {"user": "nobody", "group": "nogroup", "initgroups": True, "history": hist, "bind": bind, "master_gid": 65534}


def extra_cases(tier, seed, shard, nshards):
    cs = list(cells())
    cs.sort(key=lambda c: hashlib.sha1(("%d|%s" % (seed, sorted((k, str(v)) for k, v in c.items()))).encode()).hexdigest())
    if tier == "quick":
        picked, seen = [], set()
        for c in cs:
            ks = [("s", c["user"], c["group"], c["initgroups"], c.get("master_gid")), ("h", c["history"], c["bind"], c["initgroups"])]
            if any(k not in seen for k in ks):
                seen.update(ks)
                picked.append(c)
        cs = picked[:40]
    for i, c in enumerate(cs):
        if i % nshards == shard:
            yield dict(c, kind=KINDS[(i + seed) % 4])


EXHAUSTIVE_NOTE = "thorough: all %d cells (spelling x initgroups x history x bind), worker class rotating; quick: seeded slice of <=40 covering every spelling x initgroups and every history x bind" % len(list(cells()))


def run_case(case):
    kind = case["kind"]
    classes = ["kind:" + kind, "history:" + case["history"], "initgroups:%s" % case["initgroups"],
               "spelling:%s/%s" % (case["user"], case["group"])]
    if os.geteuid() != 0:
        return Outcome([], False, classes + ["inconclusive:not-root"])
    u, g = case["user"], case["group"]
    uid = 0 if u is None else (int(u) if u.isdigit() else pwd.getpwnam(u).pw_uid)
    gid = 0 if g is None else (int(g) if g.isdigit() else grp.getgrnam(g).gr_gid)
    extra = []
    gain = case["history"] == "hup-gain"
    if u is not None and not gain:
        extra += ["-u", u]
    if g is not None and not gain:
        extra += ["-g", g]
    if gain:
        cfg_uid, cfg_gid, uid, gid = uid, gid, 0, 0        # the first generation runs as the master does
    if case["initgroups"]:
        extra += ["--initgroups"]
    conf = []
    bind_in_conf = case["history"] == "hup-rebind"
    srv = renv.Server(kind=kind, workers=2, bind=case["bind"], graceful=2, timeout=2, threads=2 if kind == "gthread" else None,
                      extra=extra, conf_lines=conf, bind_in_conf=bind_in_conf, pre_gid=case.get("master_gid"))
    vio = []

    def V(clause, sig, observed=None, expected=None):
        vio.append(Violation(clause, "C20/" + sig, observed={"detail": observed, "case": case, "log_tail": srv.logtext()[-1200:]},
                             expected=expected))

    want_groups = None
    if case["initgroups"] and gid and uid:
        try:
            want_groups = sorted(os.getgrouplist(pwd.getpwuid(uid).pw_name, gid))
        except KeyError:
            want_groups = None

    def check_generation(label, master, sockpath=None):
        ws = renv.children(master)
        ws = [p for p in ws if not renv.children(p)]       # leave out a USR2 child master
        if not ws:
            V("workers-exist", "no-workers:" + label, {"master": master}, "workers")
            return []
        for p in ws:
            # a freshly forked worker drops privileges in init_process(), before the application is loaded: give it 3 s
            ids = _wait(lambda: (lambda i: i if i is None or (i["uid"] == [uid] * 4 and i["gid"] == [gid] * 4) else None)(renv.status_ids(p)) or
                        (None if renv.alive(p) else {"dead": True}), 3) or renv.status_ids(p)
            if ids is None or "dead" in ids:
                continue
            if ids["uid"] != [uid] * 4:
                V("uid", "worker-uid-wrong:" + label, {"pid": p, "uid": ids["uid"]}, [uid] * 4)
                return ws
            if ids["gid"] != [gid] * 4:
                V("gid", "worker-gid-wrong:%s:%s" % (label, "initgroups" if case["initgroups"] else "no-initgroups"),
                  {"pid": p, "gid": ids["gid"], "groups": ids["groups"]}, [gid] * 4)
                return ws
            if want_groups is not None and ids["groups"] != want_groups:
                V("groups", "worker-supplementary-groups-wrong:" + label, {"pid": p, "groups": ids["groups"]}, want_groups)
                return ws
        mids = renv.status_ids(master)
        if mids and (mids["uid"] != [0] * 4 or mids["gid"] != [case.get("master_gid", 0)] * 4):
            V("master-identity", "master-identity-changed:" + label, mids, "0/0")
        r, data, err = srv.request("/pid", timeout=5)
        if r is None or not (r.ok and r.status == 200):
            V("serves", "not-serving:" + label, {"error": err, "data": data[:120]}, "200")
        else:
            body = r.body.decode("latin-1")
            if ("uid=%d,%d,%d " % (uid, uid, uid)) not in body or ("gid=%d,%d,%d " % (gid, gid, gid)) not in body:
                V("app-sees-ids", "application-reports-other-ids:" + label, body.strip(), {"uid": uid, "gid": gid})
        sp = sockpath or (srv.sockpath if case["bind"] == "unix" else None)
        if sp and os.path.exists(sp) and case["history"] != "hup-gain":      # (hup-gain: the socket was created before any user was configured)
            st = os.stat(sp)
            if (st.st_uid, st.st_gid) != (uid, gid):
                V("socket-owner", "unix-socket-owner-wrong:" + label, {"owner": [st.st_uid, st.st_gid], "mode": oct(st.st_mode & 0o777)},
                  [uid, gid])
        return ws

    try:
        if not srv.wait_ready(20):
            if srv.proc.poll() is not None:
                log = srv.logtext()
                import re as _re
                m = _re.search(r"^(UnboundLocalError|NameError|AttributeError|TypeError|IndexError|AssertionError|ValueError)\b.*$", log, _re.M)
                if "Exception in worker process" in log and m:
                    # not a refusal of the configuration: the privilege drop itself crashed in every worker
                    V("workers-exist", "workers-crash-at-boot:" + m.group(1), {"error": m.group(0)[:200]}, "workers running with the configured ids")
                    return Outcome(vio, True, classes, sample={"case": case})
                return Outcome([], False, classes + ["refused-to-start"], sample={"case": case, "log": log[-300:]})
            log = srv.logtext()
            boots = log.count("Booting worker with pid")
            if boots >= 4 or "Exception in worker process" in log:
                # the master runs and keeps respawning: what the workers need after the privilege drop is not usable
                V("heartbeat-usable", "workers-crash-after-privilege-drop", {"boots": boots, "errors": [l for l in log.splitlines() if "rror" in l][:4]},
                  "workers keep running")
                return Outcome(vio, True, classes, sample={"case": case})
            return Outcome([], False, classes + ["inconclusive:not-ready"], sample={"case": case})
        gen0 = check_generation("initial", srv.pid)
        if not vio:
            # workers must survive 2 x timeout (their heartbeat file must be usable after the privilege drop)
            time.sleep(4.6)
            still = renv.children(srv.pid)
            if set(gen0) - set(still) or "WORKER TIMEOUT" in srv.logtext():
                V("heartbeat-usable", "worker-replaced-within-2x-timeout", {"before": gen0, "after": still}, "same workers")
        h = case["history"]
        if not vio:
            if h == "kill":
                os.kill(gen0[0], signal.SIGKILL)
                ok = _wait(lambda: len([p for p in renv.children(srv.pid) if p not in gen0]) >= 1, 8)
                time.sleep(0.8)
                check_generation("respawned", srv.pid)
            elif h == "hup":
                os.kill(srv.pid, signal.SIGHUP)
                _wait(lambda: renv.children(srv.pid) and not (set(renv.children(srv.pid)) & set(gen0)), 10)
                time.sleep(0.8)
                check_generation("reloaded", srv.pid)
            elif h == "hup-gain":
                uid, gid = cfg_uid, cfg_gid
                if case["initgroups"] and gid and uid:
                    try:
                        want_groups = sorted(os.getgrouplist(pwd.getpwuid(uid).pw_name, gid))
                    except KeyError:
                        want_groups = None
                srv.write_conf(([("user = %r" % u)] if u is not None else []) + ([("group = %r" % g)] if g is not None else []))
                os.kill(srv.pid, signal.SIGHUP)
                _wait(lambda: renv.children(srv.pid) and not (set(renv.children(srv.pid)) & set(gen0)), 10)
                time.sleep(0.8)
                if not _wait(lambda: srv.request("/pid", timeout=2)[0] is not None, 6) and \
                        (srv.logtext().count("Booting worker with pid") >= 6 or "Exception in worker process" in srv.logtext()):
                    V("heartbeat-usable", "workers-crash-after-privilege-drop:after-reload", {"errors": [l for l in srv.logtext().splitlines() if "rror" in l][-4:]},
                      "workers keep running")
                else:
                    check_generation("reloaded-with-identity", srv.pid)
                    if not vio:
                        before = renv.children(srv.pid)
                        time.sleep(4.6)
                        if set(before) - set(renv.children(srv.pid)) or "WORKER TIMEOUT" in srv.logtext():
                            V("heartbeat-usable", "worker-replaced-within-2x-timeout:after-reload", {"before": before, "after": renv.children(srv.pid)}, "same workers")
            elif h == "hup-rebind":
                new_path = os.path.join(srv.scratch, "second.sock")
                srv.write_conf(["bind = 'unix:%s'" % new_path])
                os.kill(srv.pid, signal.SIGHUP)
                _wait(lambda: os.path.exists(new_path) and renv.children(srv.pid) and not (set(renv.children(srv.pid)) & set(gen0)), 10)
                time.sleep(0.8)
                orig_path = srv.sockpath
                srv.addr = new_path
                srv.sockpath = new_path
                gen1 = check_generation("reloaded-rebound", srv.pid, new_path)
                if not vio:
                    # and back again: the first path still holds the socket file the reload left behind
                    srv.write_conf(["bind = 'unix:%s'" % orig_path])
                    os.kill(srv.pid, signal.SIGHUP)
                    _wait(lambda: renv.children(srv.pid) and not (set(renv.children(srv.pid)) & set(gen1)), 10)
                    time.sleep(0.8)
                    srv.addr = orig_path
                    srv.sockpath = orig_path
                    check_generation("reloaded-rebound-back", srv.pid, orig_path)
            elif h == "usr2":
                os.kill(srv.pid, signal.SIGUSR2)
                pf2 = srv.pidfile + ".2"
                new = _wait(lambda: _read_pid(pf2) if _read_pid(pf2) and renv.children(_read_pid(pf2)) else None, 12)
                if not new:
                    V("new-master", "no-new-master-after-usr2", None, "new master")
                else:
                    time.sleep(0.8)
                    check_generation("upgraded", new)
        gens = 2 if not any(v.clause == "workers-exist" for v in vio) else 1
        return Outcome(vio, True, classes, key="|".join(str(case[k]) for k in ("user", "group", "initgroups", "history", "bind")),
                       sample={"case": case, "uid": uid, "gid": gid, "want_groups": want_groups})
    finally:
        srv.cleanup()


def _wait(cond, limit):
    t0 = time.time()
    while time.time() - t0 < limit:
        v = cond()
        if v:
            return v
        time.sleep(0.1)
    return cond()


def _read_pid(p):
    try:
        return int(open(p).read().strip() or 0)
    except (OSError, ValueError):
        return None
