"""C13 Threaded worker accounts for every connection and never stops serving — engine T (+ real stress in thorough)."""
from hypothesis import strategies as st

from vlib.common import Outcome, Violation
from vlib import tsim

PROPERTY = "C13"
RULE = ("threads 1-3 x worker_connections 1-5 x keepalive {0,1,2} x schedule of up to 40 events {client connects, client sends a full "
        "keep-alive request / a Connection: close request / a partial request / the rest of it / two pipelined requests, a queued handler "
        "runs to completion, virtual time +0.5/+1/+3 s, client disconnects, worker told to stop}, one event per yield point "
        "(poller.select / futures.wait) of the real ThreadWorker.run() driven with a scripted poller, listener, sockets and executor; "
        "connection-set model checked at every yield point: open <= worker_connections, nr_conns == open connections, no close while a "
        "handler is queued/running, idle keep-alive connections closed at the first scan after their deadline and never before, a "
        "connection holding a complete request is dispatched within 3 loop iterations while a thread is free, everything closed and "
        "nr_conns == 0 once all clients have left. non-trivial = >=2 connections overlap and a keep-alive re-arm or expiry happened; "
        "distinct by case hash")
ASSUMPTIONS = [
    "handlers run atomically at yield points, and only when their connection holds a complete request or EOF",
    "bytecode-level races between pool threads and the main loop (nr_conns -= 1 is not atomic) are outside this simulation",
    "virtual time: keep-alive deadlines are compared with the clock value of the last murder_keepalived() scan",
]
BUDGET = {"quick": (16, 500), "thorough": (16, 60000)}

event = st.one_of(
    st.tuples(st.just("connect")),
    st.tuples(st.just("connect")),
    st.tuples(st.sampled_from(["send_ka", "send_ka", "send_close", "send_partial", "send_two"]), st.integers(0, 5)),
    st.tuples(st.sampled_from(["send_ka", "send_close"]), st.integers(0, 5)),
    st.tuples(st.just("finish_partial")),
    st.tuples(st.just("handler"), st.integers(0, 3)),
    st.tuples(st.just("handler"), st.integers(0, 3)),
    st.tuples(st.just("time"), st.sampled_from([0.5, 1.0, 3.0])),
    st.tuples(st.just("disconnect"), st.integers(0, 5)),
)


scene = st.one_of(
    # one keep-alive exchange, possibly followed by a pause (expiry) or another request on the same connection
    st.tuples(st.integers(0, 5), st.sampled_from(["send_ka", "send_ka", "send_close", "send_two", "send_partial"]),
              st.sampled_from([0.5, 1.0, 3.0]), st.booleans()).map(
        lambda t: [["connect"], ["time", 0.5], [t[1], t[0]]] + ([["finish_partial"]] if t[1] == "send_partial" else []) +
                  [["handler", 0], ["time", t[2]]] + ([["send_ka", t[0]], ["handler", 0], ["time", 0.5]] if t[3] else [])),
    st.tuples(st.integers(0, 5)).map(lambda t: [["connect"], ["connect"], ["time", 0.5], ["send_ka", t[0]], ["send_ka", t[0] + 1],
                                                ["handler", 0], ["handler", 0], ["time", 1.0]]),
    st.tuples(st.integers(0, 5)).map(lambda t: [["disconnect", t[0]], ["time", 0.5]]),
    st.lists(event, min_size=1, max_size=4).map(lambda l: [list(e) for e in l]),
)


def strategy(tier):
    scenes = st.lists(scene, min_size=1, max_size=7).map(lambda ls: [e for l in ls for e in l][:60])
    return st.fixed_dictionaries({
        "threads": st.integers(1, 3),
        "worker_connections": st.integers(1, 5),
        "keepalive": st.sampled_from([0, 1, 2, 2]),
        "events": st.one_of(scenes, scenes, st.lists(event, min_size=1, max_size=40).map(lambda l: [list(e) for e in l])),
        "stop_at": st.one_of(st.none(), st.none(), st.integers(0, 40)),
    })


def _old_strategy(tier):
    return st.fixed_dictionaries({
        "threads": st.integers(1, 3),
        "worker_connections": st.integers(1, 5),
        "keepalive": st.sampled_from([0, 1, 2, 2]),
        "events": st.lists(event, min_size=1, max_size=40).map(lambda l: [list(e) for e in l]),
        "stop_at": st.one_of(st.none(), st.none(), st.integers(0, 40)),
    })


def run_case(case):
    events = [list(e) for e in case["events"]]
    if case.get("stop_at") is not None and case["stop_at"] < len(events):
        events.insert(case["stop_at"], ["stop"])
    sim = tsim.Sim(case["threads"], case["worker_connections"], case["keepalive"], events)
    err = tsim.run(sim)
    vio = []
    seen = set()
    for clause, sig, detail in sim.violations:
        if sig in seen:
            continue
        seen.add(sig)
        vio.append(Violation(clause, "C13/" + sig, observed={"detail": detail, "trace": sim.trace[-14:], "applied": sim.applied[-14:],
                                                            "case": {k: case[k] for k in ("threads", "worker_connections", "keepalive")}},
                             expected=None))
    if err:
        vio.append(Violation("loop-survives", "C13/main-loop-failed:" + err.split(":")[0], observed={"error": err, "trace": sim.trace[-10:]},
                             expected="run() returns"))
    nontrivial = sim.overlap >= 1 and sim.keepalive_events >= 1
    classes = ["threads:%d" % case["threads"], "wc:%d" % case["worker_connections"], "ka:%d" % case["keepalive"],
               "conns:%d" % min(len(sim.conns), 6), "app-calls:%d" % min(sim.app_calls, 6), "stopped-by-script:%s" % (case.get("stop_at") is not None)]
    return Outcome(vio, nontrivial, classes,
                   sample={"case": {k: case[k] for k in ("threads", "worker_connections", "keepalive", "stop_at")}, "events": events[:40],
                           "conns": len(sim.conns), "app_calls": sim.app_calls, "trace": sim.trace[:12]})
