"""C13 Threaded worker accounts for every connection and never stops serving — engine T (+ real stress in thorough)."""
from hypothesis import strategies as st

from vlib.common import Outcome, Violation
from vlib import tsim

PROPERTY = "C13"
RULE = ("threads 1-3 x worker_connections {1-5 | 8-12} x keepalive {0,1,2} x schedule of up to 40 events {client connects, client sends a full "
        "keep-alive request / a Connection: close request / a partial request / the rest of it / two pipelined requests, a queued handler "
        "runs to completion after 0-2.5 s of application time, virtual time +0.5/+1/+3 s, client disconnects, worker told to stop}, one event per yield point "
        "(poller.select / futures.wait) of the real ThreadWorker.run() driven with a scripted poller, listener, sockets and executor; "
        "connection-set model checked at every yield point: open <= worker_connections, nr_conns == open connections, no close while a "
        "handler is queued/running, idle keep-alive connections closed at the first scan after their deadline and never before, a "
        "connection holding a complete request is dispatched within 3 loop iterations while a thread is free, everything closed and "
        "nr_conns == 0 once all clients have left. non-trivial = >=2 connections overlap and a keep-alive re-arm or expiry happened; "
        "distinct by case hash")
ASSUMPTIONS = [
    "handlers run atomically at yield points, and only when their connection holds a complete request or EOF; the one modelled "
    "cross-thread interleaving is the loop thread overtaking a pool thread that registers a connection without holding the worker's lock",
    "bytecode-level races between pool threads and the main loop (nr_conns -= 1 is not atomic) are outside this simulation",
    "virtual time: the model's keep-alive deadline is (instant the connection went idle) + keepalive; it is compared with the clock value of "
    "the last murder_keepalived() scan",
]
BUDGET = {"quick": (16, 500), "thorough": (16, 60000)}

event = st.one_of(
    st.tuples(st.just("connect")),
    st.tuples(st.just("connect")),
    st.tuples(st.sampled_from(["send_ka", "send_ka", "send_close", "send_partial", "send_two"]), st.integers(0, 5)),
    st.tuples(st.sampled_from(["send_ka", "send_close"]), st.integers(0, 5)),
    st.tuples(st.just("finish_partial")),
    st.tuples(st.just("handler"), st.integers(0, 3)),
    st.tuples(st.just("handler"), st.integers(0, 3), st.sampled_from([0, 0.5, 1.5, 2.5])),      # the application takes this long
    st.tuples(st.just("handler_late_data"), st.integers(0, 3)),
    st.tuples(st.just("eager")),       # the next submitted job is finished by a pool thread before submit() returns to the loop
    st.tuples(st.just("time"), st.sampled_from([0.5, 1.0, 3.0])),
    st.tuples(st.just("disconnect"), st.integers(0, 5)),
)


scene = st.one_of(
    # one keep-alive exchange, possibly followed by a pause (expiry) or another request on the same connection
    st.tuples(st.integers(0, 5), st.sampled_from(["send_ka", "send_ka", "send_close", "send_two", "send_partial"]),
              st.sampled_from([0.5, 1.0, 3.0]), st.booleans(), st.sampled_from([0, 0, 0.5, 1.5, 2.5])).map(
        lambda t: [["connect"], ["time", 0.5], [t[1], t[0]]] + ([["finish_partial"]] if t[1] == "send_partial" else []) +
                  [["handler_late_data", 0] if t[0] % 2 else ["handler", 0, t[4]], ["time", t[2]]] +
                  ([["send_ka", t[0]], ["handler", 0], ["time", 0.5]] if t[3] else [])),
    st.tuples(st.integers(0, 5)).map(lambda t: [["connect"], ["connect"], ["time", 0.5], ["send_ka", t[0]], ["send_ka", t[0] + 1],
                                                ["handler", 0], ["handler", 0], ["time", 1.0]]),
    st.tuples(st.integers(0, 5)).map(lambda t: [["disconnect", t[0]], ["time", 0.5]]),
    st.tuples(st.integers(0, 5), st.sampled_from(["send_ka", "send_close"])).map(
        lambda t: [["connect"], ["time", 0.5], ["eager"], [t[1], t[0]], ["time", 0.5], ["time", 0.5]]),
    st.lists(event, min_size=1, max_size=4).map(lambda l: [list(e) for e in l]),
)


def strategy(tier):
    # every history starts with a client that connects and sends something (a third of the generated histories used to contain no
    # connection at all), and two thirds of them have more connection slots than clients: the open finding "the loop stops polling
    # client sockets at capacity" otherwise swallows whatever comes after it in the history
    opening = st.tuples(st.sampled_from(["send_ka", "send_ka", "send_close", "send_two", "send_partial"]), st.booleans()).map(
        lambda t: [["connect"], ["time", 0.5], [t[0], 0]] + ([["eager"]] if t[1] else []))
    scenes = st.tuples(opening, st.lists(scene, min_size=1, max_size=7)).map(lambda t: (t[0] + [e for l in t[1] for e in l])[:60])
    raw = st.lists(event, min_size=1, max_size=40).map(lambda l: [["connect"]] + [list(e) for e in l])
    return st.fixed_dictionaries({
        "threads": st.integers(1, 3),
        "worker_connections": st.one_of(st.integers(1, 5), st.integers(8, 12), st.integers(8, 12)),
        "keepalive": st.sampled_from([0, 1, 2, 2]),
        "events": st.one_of(scenes, scenes, raw),
        "stop_at": st.one_of(st.none(), st.none(), st.integers(2, 40)),
    })


def _old_strategy(tier):
    return st.fixed_dictionaries({
        "threads": st.integers(1, 3),
        "worker_connections": st.integers(1, 5),
        "keepalive": st.sampled_from([0, 1, 2, 2]),
        "events": st.lists(event, min_size=1, max_size=40).map(lambda l: [list(e) for e in l]),
        "stop_at": st.one_of(st.none(), st.none(), st.integers(0, 40)),
    })


def extra_cases(tier, seed, shard, nshards):
    n, secs = (1, 4) if tier == "quick" else (6, 15)
    for i in range(n):
        if i % nshards == shard:
            yield {"engine": "R", "threads": [2, 4, 1][i % 3], "keepalive": [2, 1, 2][i % 3], "clients": 32 if tier == "quick" else 64,
                   "seconds": secs, "rseed": seed * 101 + i}


def run_real(case):
    """real gthread worker under a swarm of real clients with mixed behaviour; at quiescence the worker's socket fds are back
    to the baseline, the worker is the same process and still serves (bytecode-level races are only sampled here)"""
    import os
    import random
    import threading
    import time
    from vlib import renv
    srv = renv.Server(kind="gthread", workers=1, bind="tcp", graceful=2, timeout=30, threads=case["threads"], keepalive=case["keepalive"])
    vio = []
    try:
        if not srv.wait_ready():
            return Outcome([], False, ["engine:R", "inconclusive:not-ready"])
        time.sleep(case["keepalive"] + 1.5)
        wpid = srv.workers()[0]

        def nsock():
            n = 0
            for fd in os.listdir("/proc/%d/fd" % wpid):
                try:
                    if os.readlink("/proc/%d/fd/%s" % (wpid, fd)).startswith("socket:"):
                        n += 1
                except OSError:
                    pass
            return n
        base = nsock()
        stop = [False]
        stats = {"ok": 0, "bad": 0, "conns": 0}
        lock = threading.Lock()

        def client(i):
            rng = random.Random(case["rseed"] * 1000 + i)
            while not stop[0]:
                mode = rng.choice(["ka", "ka", "close", "idle", "partial", "slow"])
                try:
                    c = srv.connect(5)
                except OSError:
                    with lock:
                        stats["bad"] += 1
                    time.sleep(0.05)
                    continue
                with lock:
                    stats["conns"] += 1
                try:
                    if mode == "idle":
                        time.sleep(rng.choice([0.0, 0.2, 1.0]))
                    elif mode == "partial":
                        c.sendall(b"GET /pid HTTP/1.1\r\nHo")
                        time.sleep(rng.choice([0.0, 0.3]))
                    else:
                        for k in range(rng.randint(1, 4) if mode == "ka" else 1):
                            path = "/slow/0.05" if mode == "slow" else "/pid"
                            c.sendall(("GET %s HTTP/1.1\r\nHost: x\r\n%s\r\n" % (path, "Connection: close\r\n" if mode == "close" else "")).encode())
                            buf = b""
                            c.settimeout(6)
                            while True:
                                r = ref_parse(buf)
                                if r is not None and r.ok and r.complete:
                                    break
                                d = c.recv(65536)
                                if not d:
                                    break
                                buf += d
                            r = ref_parse(buf)
                            with lock:
                                stats["ok" if (r is not None and r.ok and r.complete and r.status == 200) else "bad"] += 1
                            if mode == "ka":
                                time.sleep(rng.choice([0.0, 0.1, 0.6]))
                except OSError:
                    pass
                finally:
                    try:
                        c.close()
                    except OSError:
                        pass

        def ref_parse(buf):
            from vlib import ref_response
            return ref_response.parse_response(buf, 0, "GET") if buf else None

        ths = [threading.Thread(target=client, args=(i,), daemon=True) for i in range(case["clients"])]
        for t in ths:
            t.start()
        time.sleep(case["seconds"])
        stop[0] = True
        for t in ths:
            t.join(10)
        time.sleep(case["keepalive"] + 2.0)
        after = nsock() if renv.alive(wpid) else -1
        if srv.workers() != [wpid]:
            vio.append(Violation("worker-lives", "C13/real:worker-replaced-under-load", observed={"before": wpid, "after": srv.workers(),
                                                                                                 "log_tail": srv.logtext()[-1200:]}, expected="same worker"))
        elif after != base:
            vio.append(Violation("returns-to-zero", "C13/real:socket-fds-%s-baseline-after-clients-left" % ("above" if after > base else "below"),
                                 observed={"baseline": base, "after": after, "stats": stats}, expected=base))
        r, data, err = srv.request("/pid", timeout=5)
        if r is None or not (r.ok and r.status == 200):
            vio.append(Violation("keeps-serving", "C13/real:not-serving-after-load", observed={"error": err}, expected="200"))
        return Outcome(vio, stats["conns"] > 50, ["engine:R", "threads:%d" % case["threads"]], key="R|%d" % case["rseed"],
                       sample={"case": case, "stats": stats, "baseline_fds": base, "after_fds": after}, counts={"real-connections": stats["conns"]})
    finally:
        srv.cleanup()


def run_case(case):
    if case.get("engine") == "R":
        return run_real(case)
    events = [list(e) for e in case["events"]]
    if case.get("stop_at") is not None and case["stop_at"] < len(events):
        events.insert(case["stop_at"], ["stop"])
    sim = tsim.Sim(case["threads"], case["worker_connections"], case["keepalive"], events)
    err = tsim.run(sim)
    vio = []
    seen = set()
    for clause, sig, detail in sim.violations:
        if sig in seen:
            continue
        seen.add(sig)
        vio.append(Violation(clause, "C13/" + sig, observed={"detail": detail, "trace": sim.trace[-14:], "applied": sim.applied[-14:],
                                                            "case": {k: case[k] for k in ("threads", "worker_connections", "keepalive")}},
                             expected=None))
    if err:
        vio.append(Violation("loop-survives", "C13/main-loop-failed:" + err.split(":")[0], observed={"error": err, "trace": sim.trace[-10:]},
                             expected="run() returns"))
    nontrivial = sim.overlap >= 1 and sim.keepalive_events >= 1
    classes = ["threads:%d" % case["threads"], "wc:%d" % case["worker_connections"], "ka:%d" % case["keepalive"],
               "conns:%d" % min(len(sim.conns), 6), "app-calls:%d" % min(sim.app_calls, 6), "stopped-by-script:%s" % (case.get("stop_at") is not None)]
    return Outcome(vio, nontrivial, classes,
                   sample={"case": {k: case[k] for k in ("threads", "worker_connections", "keepalive", "stop_at")}, "events": events[:40],
                           "conns": len(sim.conns), "app_calls": sim.app_calls, "trace": sim.trace[:12]})
