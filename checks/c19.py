"""C19 Every handled request is logged once, truthfully, on a single line — engine W."""
import base64
import re

from hypothesis import strategies as st

from vlib.common import Outcome, Violation
from vlib import gen_app, wenv, ref_response

PROPERTY = "C19"
RULE = ("1-3 pipelined requests (conforming and hostile: percent-encoded and raw CTLs/quotes in target, odd header values, Basic "
        "credentials decoding to arbitrary bytes incl. LF/CR, rejected heads) x application programs of C02 (list/generator/write()/"
        "file_wrapper/sendfile bodies, failures) x access_log_format built from the documented atoms (incl. {hdr}i, {hdr}o, {var}e) "
        "x worker class x send faults; records captured from the real gunicorn.access logger; oracle: one record per completed "
        "application call, %(s)s = status on the wire, %(B)s/%(b)s = body bytes an independent response reader decoded, at most one "
        "record for a server-rejected request, no LF inside any record. non-trivial = a hostile byte is present or the body went "
        "through file_wrapper / write(); distinct by case hash")
ASSUMPTIONS = [
    "a CR inside a record is counted, not flagged (it does not start a new line in a LF-delimited log)",
    "misbehaving applications (Content-Length larger than output, body for HEAD/204/304) are excluded from the byte-count verdict",
    "with an injected send fault only the number of records is judged",
]
BUDGET = {"quick": (16, 600), "thorough": (16, 30000)}

ATOMS = ["%(h)s", "%(l)s", "%(u)s", "%(t)s", "%(r)s", "%(m)s", "%(U)s", "%(q)s", "%(H)s", "%(f)s", "%(a)s", "%(T)s", "%(D)s", "%(M)s",
         "%(L)s", "%(p)s", "%({x-evil}i)s", "%({user-agent}i)s", "%({x-app}o)s", "%({content-length}o)s", "%({raw_uri}e)s",
         "%({path_info}e)s", "%({http_x_evil}e)s", "\"%(r)s\"", "\"%(a)s\"", "%({authorization}i)s"]

HOSTILE_TARGETS = ["/a%0ab", "/a%0d%0aFAKE", "/%0a", "/q?x=%0a", "/a\"b", "/a%22b", "/a\\b", "/caf\xe9", "/%00", "/a'b", "/a%5cnb",
                   "/x?q=\"", "/ok"]
HOSTILE_VALUES = ["v", "a\"b", "a\\b", "\x0b", "\x7f", "caf\xe9", "\x01\x02", "a\tb", "%0a", "\\n", "x" * 300]
USERS = [b"user", b"evil\nuser", b"evil\r\nFAKE 200", b"\xff\xfe", b"a\"b", b"", b"u\x00v", b"caf\xc3\xa9", b"line\x0bvt", b"x\x85y"]


RAW_CREDENTIALS = ["Basic \xe9\xe8\xff", "basic YWxp\xb7Y2U6cHc=", "Basic !!!", "Basic", "Basic ", "Basic YWJj", "Basic a", "Basic =", "Basic ====",
                   "Bearer tok\xe9n", "Basic YWxpY2U6cHc=\xa0", "Basic \xa0YWxpY2U6cHc=", "Basic YW xp", "Digest username=\"x\"", "Basic /w==", "Basic 5Q=="]


@st.composite
def request_st(draw):
    r = draw(gen_app.request_head())
    r["target"] = draw(st.sampled_from(HOSTILE_TARGETS + ["/", "/a?b=c"]))
    extra = []
    if draw(st.booleans()):
        extra.append(["X-Evil", draw(st.sampled_from(HOSTILE_VALUES))])
    if draw(st.integers(0, 2)) == 0:
        extra.append(["User-Agent", draw(st.sampled_from(HOSTILE_VALUES))])
    if draw(st.integers(0, 2)) == 0:
        u = draw(st.sampled_from(USERS))
        scheme = draw(st.sampled_from(["Basic", "basic", "BASIC", "Basic "]))
        if draw(st.integers(0, 3)) == 0:
            # credentials that are not base64 at all (obs-text, bad padding, no colon after decoding) or another scheme
            extra.append(["Authorization", draw(st.sampled_from(RAW_CREDENTIALS))])
        else:
            extra.append(["Authorization", scheme + " " + base64.b64encode(u + b":pw").decode()])
    if draw(st.integers(0, 11)) == 0:
        extra.append(draw(st.sampled_from([["Bad Header", "x"], ["X-Nul", "a\x00b"], ["Content-Length", "abc"], ["X-LF", "a\nb"],
                                           ["Transfer-Encoding", "bogus"]])))
    r["extra"] = extra
    if draw(st.integers(0, 15)) == 0:
        r["version"] = draw(st.sampled_from(["2.0", "0.9"]))
    return r


def strategy(tier):
    return st.fixed_dictionaries({
        "kind": st.sampled_from(list(wenv.KINDS)),
        "keepalive": st.sampled_from([0, 2, 2]),
        "sendfile": st.sampled_from([None, None, False]),
        "requests": st.lists(request_st(), min_size=1, max_size=3),
        "progs": st.lists(gen_app.app_program(), min_size=1, max_size=3),
        "atoms": st.lists(st.sampled_from(ATOMS), min_size=0, max_size=6),
        "send_fault": st.one_of(st.none(), st.none(), st.none(), st.tuples(st.integers(0, 6), st.sampled_from([32, 104])).map(list)),
    })


REC = re.compile(r"^S=(\S*) B=(\S*) b=(\S*) id=(\S*) \|", re.S)


def _double_logged(records, calls, data):
    """the last two records belong to the last (failed) call: <announced status> then 500, and the wire ends with a 500 page"""
    if len(records) < 2 or not calls[-1]["raised"]:
        return False
    a, b = REC.match(records[-2]), REC.match(records[-1])
    sent_page = b"HTTP/1.1 500 Internal Server Error\r\nConnection: close" in data
    return bool(a and b and b.group(1) == "500" and calls[-1]["raised"].startswith("app:"))


def run_case(case):
    kind = case["kind"]
    fmt = "S=%(s)s B=%(B)s b=%(b)s id=%({x-req-id}i)s |" + " ".join(case["atoms"]) + "|END"
    cfg = wenv.make_cfg(keepalive=case["keepalive"], sendfile=case["sendfile"], worker_connections=10, threads=2,
                        accesslog="-", access_log_format=fmt)
    reqs = case["requests"]
    progs = case["progs"]
    # every request carries its own number: a record is attributable to the request it describes
    raw = "".join(gen_app.render_request(r, [["X-Req-Id", "r%d" % i]] + list(r.get("extra", ()))) for i, r in enumerate(reqs)).encode("latin-1")
    app = wenv.AppProgram(progs)
    env = wenv.Env(kind, cfg, app)
    sf = case.get("send_fault")
    sock = wenv.FakeSocket([raw], send_fault=tuple(sf) if sf else None)
    escaped = env.serve(sock)
    data = sock.received()
    records = list(env.access.records)
    vio = []
    classes = ["kind:" + kind]

    def V(clause, sig, observed=None, expected=None):
        vio.append(Violation(clause, "C19/" + sig, observed={"detail": observed, "records": records[:4], "calls": len(app.calls),
                                                             "wire": data[:300]}, expected=expected))

    if escaped is not None:
        V("no-escape", "exception-escaped-handle:" + type(escaped).__name__, repr(escaped))
        return Outcome(vio, True, classes)
    hostile = any(r["target"] in HOSTILE_TARGETS[:-1] or r.get("extra") for r in reqs)
    # ---- single line
    for rec in records:
        if "\n" in rec:
            src = "record"
            for name, probe in (("basic-auth-user", "evil"), ("path-info", "/a\nb"), ("path-info", "FAKE"), ("path-info", "/\n")):
                if probe in rec:
                    src = name
                    break
            V("single-line", "lf-in-record:" + src, {"record": rec}, "no LF in a record")
            break
        if not REC.match(rec) or not rec.endswith("|END"):
            V("record-shape", "record-malformed", {"record": rec}, fmt)
            break
    if "<<FORMAT-ERROR" in "".join(records):
        V("record-shape", "record-format-error", None, None)
    # ---- count
    calls = app.calls
    completed = 0
    for i, c in enumerate(calls):
        if c["raised"] is None:
            completed += 1
    rejected = 1 if len(calls) < len(reqs) else 0
    lo, hi = completed, len(calls) + rejected
    if sock.send_errors:
        classes.append("send-fault-fired")
    if not vio and len(records) == hi + 1 and any(
            c["raised"] and c["raised"].startswith("app:") for c in calls) and data.startswith(b"HTTP/1.1 500") is not None \
            and _double_logged(records, calls, data):
        # the application failed before any byte of its response was sent: the per-request `finally` logs the
        # status it had announced, then handle_error logs the 500 page the client really got
        V("one-record-per-request", "two-records-when-app-fails-before-headers-sent",
          {"records": records[:4], "calls": len(calls)}, "one record carrying the status the client received")
    elif not vio and not (lo <= len(records) <= hi):
        V("one-record-per-request", "record-count:%s" % ("too-few" if len(records) < lo else "too-many"),
          {"records": len(records), "completed_calls": completed, "calls": len(calls), "requests": len(reqs),
           "send_fault": sf, "send_errors": sock.send_errors}, {"min": lo, "max": hi})
    # ---- attribution: no request is described by two records (the known double record of a failed call has its own signature above)
    if not vio:
        ids = [REC.match(r).group(4) for r in records if REC.match(r)]
        dup = sorted(set(x for x in ids if x != "-" and ids.count(x) > 1))
        if dup and not _double_logged(records, calls, data):
            V("one-record-per-request", "two-records-for-one-request:%s" % ("after-a-rejected-message" if rejected else "same-call"),
              {"duplicated": dup, "records": records[:4]}, "each request logged once")
    # ---- truthfulness (only when nothing interfered with sending)
    nontrivial = hostile
    if not vio and not sock.send_errors:
        pos = 0
        for i, c in enumerate(calls):
            rq = reqs[i]
            prog = progs[min(i, len(progs) - 1)]
            out, cl = gen_app.expected_output(prog)
            code = int(prog["status"].split()[0])
            nobody = rq["method"] == "HEAD" or code in (204, 304)
            misbehaves = (not nobody and cl is not None and cl > len(out)) or (nobody and len(out) > 0)
            if c["raised"] is not None or misbehaves:
                classes.append("skip-truth:" + ("failed" if c["raised"] else "misbehaves"))
                break
            resp = ref_response.parse_response(data, pos, rq["method"])
            if resp is not None and resp.ok and resp.status == 100:
                pos = resp.end
                resp = ref_response.parse_response(data, pos, rq["method"])
            if resp is None or not resp.ok or not resp.complete or resp.errors:
                classes.append("skip-truth:wire-unparsed")     # C02's business
                break
            if i >= len(records):
                break
            m = REC.match(records[i])
            if not m:
                break
            s, B, b, rid = m.groups()
            if rid != "r%d" % i:
                V("record-describes-its-request", "record-attributed-to-another-request", {"record": records[i], "position": i}, "id=r%d" % i)
                break
            if s != str(resp.status):
                V("status-truthful", "logged-status-differs", {"logged": s, "wire": resp.status, "record": records[i]}, resp.status)
                break
            blen = len(resp.body)
            if B != str(blen) or b not in (str(blen), "-" if blen == 0 else str(blen)):
                V("bytes-truthful", "logged-bytes-differ:%s%s" % (prog["mode"], ":sendfile" if prog["mode"] == "file" and case["sendfile"] is None else ""),
                  {"logged_B": B, "logged_b": b, "wire_body_len": blen, "prog": prog}, blen)
                break
            if prog["mode"] in ("file", "bytesio", "write", "write+list") and blen > 0:
                nontrivial = True
            classes.append("truth-checked:" + prog["mode"])
            if resp.end is None or resp.framing == "close":
                break
            pos = resp.end
    classes.append("records:%d" % min(len(records), 4))
    return Outcome(vio, nontrivial, classes,
                   sample={"kind": kind, "format": fmt, "requests": [{"target": r["target"], "extra": r.get("extra")} for r in reqs],
                           "records": records[:3]})
