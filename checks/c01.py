"""C01 Request framing is unambiguous and RFC 9112-exact — differential against ref_request."""
from hypothesis import strategies as st

from vlib.common import Outcome, Violation
from vlib import gen_http, penv, ref_request

PROPERTY = "C01"
RULE = ("streams of 1-3 pipelined requests from an obfuscating HTTP grammar generator (CL/TE/chunk syntax "
        "variants, weird whitespace, byte mutations, truncation) x safe parser configs; differential against an "
        "independent strict RFC 9112 reader (body bytes, end offset, listed must-reject classes). "
        "non-trivial = stream has a framing header or >=2 requests AND (gunicorn yielded a request with a "
        "non-empty body or a pipelined successor, or the reference returned a listed reject class); "
        "plus a worker-level slice (engine W): conforming keep-alive pipelines served by real sync/gthread/gevent/eventlet worker objects "
        "while the application reads all / some / nothing of each body: the (method, target) sequence handed to the application equals "
        "the reference reading and no error page is produced (also with the n-th read failing with ECONNRESET / ETIMEDOUT: a chunked body whose end never arrived is not handed over as complete). distinct by sha1 of the case")
ASSUMPTIONS = [
    "documented-unsafe parser modes (permit_obsolete_folding, strip_header_spaces, header_map=dangerous, "
    "permit_unconventional_http_*, casefold_http_method) stay off",
    "acceptance is one-directional: gunicorn may reject anything; only what it yields is compared",
    "tolerated zone: CTLs other than NUL/CR/LF in values, arbitrary bytes in chunk extensions, identity coding, "
    "Transfer-Encoding without final chunked when the connection is never reused afterwards",
    "the worker stops using a connection after any exception from the parser or the body",
]
BUDGET = {"quick": (16, 1200), "thorough": (16, 20000)}

CFGS = [
    {},
    {"header_map": "refuse"},
    {"limit_request_line": 0, "limit_request_fields": 32768, "limit_request_field_size": 0},
    {"limit_request_line": 4094, "limit_request_fields": 10, "limit_request_field_size": 200},
    {"forwarded_allow_ips": "*"},
    {"proxy_protocol": True},
    {"proxy_protocol": True, "proxy_allow_ips": "10.1.1.1"},
]
PROXY_PREFIX = ["", "", "PROXY TCP4 192.0.2.1 192.0.2.2 1111 80\r\n", "PROXY TCP6 2001:db8::1 2001:db8::2 1111 80\r\n",
                "PROXY TCP4 192.0.2.1 192.0.2.2 1111\r\n", "PROXY UNKNOWN\r\n", "PROXY TCP4 300.0.2.1 192.0.2.2 1111 80\r\n",
                "PROXY  TCP4 192.0.2.1 192.0.2.2 1111 80\r\n", "PROXY TCP4 192.0.2.1 192.0.2.2 70000 80\r\n"]
VALID_PROXY = (2, 3)
_cfg_cache = {}


def cfg_for(i):
    if i not in _cfg_cache:
        _cfg_cache[i] = penv.make_cfg(**CFGS[i])
    return _cfg_cache[i]


@st.composite
def _worker_case(draw):
    """engine W: a conforming keep-alive pipeline through a real worker object; the application reads all / some / nothing of each body"""
    n = draw(st.integers(2, 3))
    reqs = [draw(gen_http.conforming_request(with_body=draw(st.sampled_from([True, True, False])), version="HTTP/1.1")) for _ in range(n)]
    return {"engine": "W", "kind": draw(st.sampled_from(["gthread", "gevent", "eventlet", "sync"])),
            "stream": "".join(r["raw"] for r in reqs), "read_input": draw(st.sampled_from(["none", "none", "some", "line", "all"])),
            "cuts": draw(st.lists(st.integers(1, 300), max_size=3)),
            # the connection fails (reset / timed out) at the n-th read of the worker
            "recv_fault": draw(st.one_of(st.none(), st.none(), st.tuples(st.integers(1, 4), st.sampled_from([104, 110])).map(list)))}


def strategy(tier):
    return st.one_of(_parser_case(tier), _parser_case(tier), _parser_case(tier), _parser_case(tier), _worker_case())


def run_worker(case):
    """requests handed to the application by a real worker (handle() on a scripted socket) = the reference reading of the stream,
    whatever the application did with the bodies; a conforming pipeline is never answered with an error page"""
    from vlib import wenv, ref_response
    stream = case["stream"].encode("latin-1")
    refs = []
    pos = 0
    while pos < len(stream):
        r = ref_request.parse_request(stream, pos)
        if r.kind != "ok":
            return Outcome([], False, ["engine:W", "inconclusive:reference-does-not-accept-the-generated-pipeline:" + r.kind])
        refs.append(r)
        pos = r.end
    kind = case["kind"]
    if b";x=" + b"e" * 8000 in stream:
        # a chunk extension longer than the server's cap on a chunk-size line (8190 bytes) is legitimately refused
        return Outcome([], False, ["engine:W", "inconclusive:chunk-extension-above-the-size-line-cap"])
    prog = {"status": "200 OK", "headers": [["Content-Length", "2"]], "mode": "list", "chunks": ["ok"], "read_input": case["read_input"]}
    app = wenv.AppProgram(prog)
    env = wenv.Env(kind, wenv.make_cfg(keepalive=2, worker_connections=10, threads=2), app)
    cuts = sorted(set(c for c in case.get("cuts", []) if 0 < c < len(stream)))
    segs = [stream[a:b] for a, b in zip([0] + cuts, cuts + [len(stream)])]
    rf = case.get("recv_fault")
    sock = wenv.FakeSocket(segs, recv_fault=tuple(rf) if rf else None)
    escaped = env.serve(sock)
    vio = []
    wire = sock.received()
    if rf:
        # the stream was cut by a failing read: nothing is demanded about how far the worker got, except that a chunked body whose
        # terminating chunk never arrived is not handed to the application as if it were complete
        for c, r in zip(app.calls, refs):
            if case["read_input"] == "all" and c["raised"] is None and c["input"] is not None \
                    and c["input"] != r.body and sock.recv_errors:
                vio.append(Violation("body-exact", "C01/worker:truncated-%s-body-handed-over-as-complete:%s" % ("chunked" if r.framing == "chunked" else "sized", kind),
                                     observed={"got_len": len(c["input"]), "sent_len": len(r.body), "fault": rf}, expected="an error from wsgi.input"))
                break
        return Outcome(vio, True, ["engine:W", "kind:" + kind, "read:" + case["read_input"], "recv-fault:%s" % bool(sock.recv_errors)],
                       sample={"case": {k: case[k] for k in ("kind", "read_input", "recv_fault")}})
    got = [(c["environ"].get("REQUEST_METHOD"), c["environ"].get("RAW_URI")) for c in app.calls]
    want = [(r.method.decode("latin-1"), r.target.decode("latin-1")) for r in refs]
    # sync serves one request per connection; gthread leaves a pipelined request that is already in the parser's buffer unserved
    # (C13's open finding): for these two only the first request is demanded, the others must still be the right ones if served
    expect_n = 1 if kind in ("sync", "gthread") else len(want)
    if escaped is not None:
        vio.append(Violation("no-escape", "C01/worker:exception-escaped-handle:" + type(escaped).__name__, observed=repr(escaped)))
    elif got != want[:len(got)]:
        vio.append(Violation("requests-handed-over", "C01/worker:application-got-another-request-sequence:" + kind,
                             observed={"got": got, "read_input": case["read_input"], "wire": wire[:300]}, expected=want))
    elif len(got) < expect_n or b"HTTP/1.1 4" in wire or b"HTTP/1.1 5" in wire:
        vio.append(Violation("requests-handed-over", "C01/worker:conforming-pipeline-not-served:" + kind,
                             observed={"calls": len(got), "of": expect_n, "read_input": case["read_input"], "wire_tail": wire[-300:]},
                             expected="every request of the pipeline handed to the application, no error page"))
    bodies = sum(1 for r in refs if r.body)
    return Outcome(vio, bodies > 0 and kind != "sync", ["engine:W", "kind:" + kind, "read:" + case["read_input"], "requests:%d" % len(refs)],
                   sample={"case": {k: case[k] for k in ("kind", "read_input")}, "requests": want, "calls": len(got)})


def _parser_case(tier):
    return st.fixed_dictionaries({
        "stream": gen_http.stream(obfuscate=True),
        "cfg": st.sampled_from([0, 0, 0, 1, 2, 3, 4, 5, 5, 6]),
        "proxy": st.integers(0, len(PROXY_PREFIX) - 1),
        "cut": st.integers(0, 400),
        "consume": st.sampled_from([0, 0, 1, 3, 7]),
        "cut_mode": st.sampled_from(["one", "one", "after-last-chunk", "every-64", "after-every-crlf"]),
    })


def run_case(case):
    if case.get("engine") == "W":
        return run_worker(case)
    stream = case["stream"].encode("latin-1")
    cfg = cfg_for(case.get("cfg", 0))
    cuts = [case["cut"]] if case.get("cut") else []
    mode = case.get("cut_mode", "one")
    if mode == "after-last-chunk":
        # read boundaries right after every last-chunk line "0 CRLF" (i.e. inside / in front of a trailer section) and a bit later
        k = (case.get("cut", 0) % 5)
        pos = stream.find(b"\r\n0\r\n")
        while pos >= 0 and len(cuts) < 12:
            cuts += [pos + 5, pos + 5 + 3 + 4 * k]
            pos = stream.find(b"\r\n0\r\n", pos + 1)
    elif mode == "every-64":
        cuts = list(range(64 - case.get("cut", 0) % 64 or 64, len(stream), 64))
    elif mode == "after-every-crlf":
        cuts = [i + 2 for i in range(len(stream)) if stream[i:i + 2] == b"\r\n"][:200]
    pre = b""
    if CFGS[case.get("cfg", 0)].get("proxy_protocol"):
        # PROXY protocol v1 line in front of the first request (peer 127.0.0.1): config 5 allows the peer, config 6 does not
        pre = PROXY_PREFIX[case.get("proxy", 0) % len(PROXY_PREFIX)].encode()
    reqs, terminal = penv.observe(pre + stream, cuts, cfg)
    if pre:
        ok_line = (case.get("proxy", 0) % len(PROXY_PREFIX)) in VALID_PROXY and case.get("cfg") == 5
        if not ok_line:
            out = Outcome([], True, ["proxy-line:refused-expected"])
            if reqs:
                out.violations.append(Violation("proxy-line", "C01/request-yielded-after-bad-or-forbidden-proxy-line",
                                                observed={"prefix": pre, "yielded": [_brief(r) for r in reqs[:2]]}, expected="rejected"))
            return out
        for r in reqs:      # offsets are relative to the stream after the PROXY line
            r["end"] -= len(pre)
        cuts = [c + len(pre) for c in cuts]
    out = judge(stream, reqs, terminal)
    if not out.violations and "consume" in case:
        # same connection, but the application reads little or nothing of each body: the requests
        # handed over must be the same ones (the unread body is never parsed as a request)
        reqs2, term2 = penv.observe(stream, cuts, cfg, consume=case["consume"])
        h1 = [_head(r) for r in reqs]
        h2 = [_head(r) for r in reqs2]
        if h1 != h2:
            out.violations.append(Violation(
                "consumption-independence", "C01/requests-depend-on-body-consumption",
                observed={"full_read": h1, "partial_read": h2, "consume": case["consume"], "terminals": [terminal, term2]},
                expected="same request sequence"))
        if len(reqs) >= 2 and any(r["body"] for r in reqs[:-1]):
            out.classes.append("unread-body-before-successor")
    return out


def _pipelines():
    """small conforming pipelines whose first request is chunked, with 0-2 trailer fields, followed by a request that must be found
    at exactly the byte after the trailer section"""
    firsts = []
    for body in ("hello world", "x" * 8150):
        for trailers in ("", "X-T: v\r\n", "X-A: 1\r\nX-B: 2\r\n"):
            for lastline in ("0\r\n", "0;a=b\r\n"):
                chunks = "%x\r\n%s\r\n" % (len(body), body) if len(body) < 100 else \
                    "".join("%x\r\n%s\r\n" % (len(body[i:i + 4000]), body[i:i + 4000]) for i in range(0, len(body), 4000))
                firsts.append("POST /one HTTP/1.1\r\nHost: a\r\nTransfer-Encoding: chunked\r\n\r\n" + chunks + lastline + trailers + "\r\n")
    followers = ["GET /two HTTP/1.1\r\nHost: a\r\n\r\n",
                 "POST /two HTTP/1.1\r\nHost: a\r\nContent-Length: 26\r\n\r\nGET /smuggled HTTP/1.1\r\n\r\nGET /three HTTP/1.1\r\nHost: a\r\n\r\n"]
    return [f + g for f in firsts for g in followers]


def extra_cases(tier, seed, shard, nshards):
    n = 0
    # worker level: the read that would deliver the second half of a body fails (reset / timed out / would block / interrupted); the rest
    # of the body and a follower are still in the socket: half a body is never handed over as a whole one
    body = ("0123456789abcdef" * 40)[:600]
    for kind in ("sync", "gthread", "gevent", "eventlet"):
        for fr, enc in (("cl", "Content-Length: 600\r\n\r\n" + body),
                        ("chunked", "Transfer-Encoding: chunked\r\n\r\n12c\r\n" + body[:300] + "\r\n12c\r\n" + body[300:] + "\r\n0\r\n\r\n")):
            for eno in (104, 110, 11, 4):
                n += 1
                if n % nshards == shard:
                    head = "POST /one HTTP/1.1\r\nHost: a\r\n"
                    yield {"engine": "W", "kind": kind, "stream": head + enc + "GET /two HTTP/1.1\r\nHost: a\r\n\r\n", "read_input": "all",
                           "cuts": [len(head) + 200], "recv_fault": [1, eno]}
    for s in _pipelines():
        end_first = s.index("/two") - 5
        start = s.index("\r\n0") if len(s) < 2000 else s.index("\r\n0\r\n") if "\r\n0\r\n" in s else s.index("\r\n0;")
        # every single read boundary from the last-chunk line to a little past the start of the follower, then a second boundary too
        for cut in range(max(1, start - 2), min(len(s), end_first + 12)):
            for consume in (0, 1):
                n += 1
                if n % nshards == shard:
                    yield {"stream": s, "cfg": 0, "proxy": 0, "cut": cut, "consume": consume, "cut_mode": "one"}
        for k in range(5):
            for mode in ("after-last-chunk", "every-64", "after-every-crlf"):
                n += 1
                if n % nshards == shard:
                    yield {"stream": s, "cfg": 0, "proxy": 0, "cut": k * 13 + 1, "consume": k % 2, "cut_mode": mode}
    # every HTTP-version of the DIGIT "." DIGIT shape (0.0 - 2.9) x every framing: chunked below 1.1 is always faulty
    smuggled = "GET /smuggled HTTP/1.1\r\nHost: a\r\n\r\n"
    chunked = "%x\r\n%s\r\n0\r\n\r\n" % (len(smuggled), smuggled)
    for major in range(3):
        for minor in range(10):
            v = "HTTP/%d.%d" % (major, minor)
            for framing in ("Transfer-Encoding: chunked\r\n\r\n" + chunked,
                            "Transfer-Encoding: chunked\r\nContent-Length: 4\r\n\r\n" + chunked,
                            "Transfer-Encoding: gzip, chunked\r\n\r\n" + chunked,
                            "Content-Length: %d\r\n\r\n%s" % (len(smuggled), smuggled),
                            "\r\n" + smuggled):
                for cfg in (0, 1):
                    n += 1
                    if n % nshards == shard:
                        yield {"stream": "POST /one %s\r\nHost: a\r\n%sGET /after HTTP/1.1\r\nHost: a\r\n\r\n" % (v, framing),
                               "cfg": cfg, "proxy": 0, "cut": 0, "consume": n % 2, "cut_mode": "one"}


    # the peer goes away at every byte of a chunked request (2 chunks, extension, trailers)
    trunc = ("POST /one HTTP/1.1\r\nHost: a\r\nTransfer-Encoding: chunked\r\n\r\n5\r\nhello\r\n6;x=y\r\n world\r\n3\r\nabc\r\n0\r\nX-T: v\r\n\r\n")
    for cut in range(len(trunc) - 40, len(trunc)):
        for mode in ("one", "after-every-crlf"):
            n += 1
            if n % nshards == shard:
                yield {"stream": trunc[:cut], "cfg": 0, "proxy": 0, "cut": cut // 2, "cut_mode": mode}
    # a PROXY protocol line is only ever the first line of a connection: in front of a later request it is a malformed request line
    first = ["GET /one HTTP/1.1\r\nHost: a\r\n\r\n", "POST /one HTTP/1.1\r\nHost: a\r\nContent-Length: 3\r\n\r\nabc",
             "POST /one HTTP/1.1\r\nHost: a\r\nTransfer-Encoding: chunked\r\n\r\n3\r\nabc\r\n0\r\n\r\n"]
    second = "GET /two HTTP/1.1\r\nHost: a\r\n\r\n"
    for f in first:
        for line in ("PROXY TCP4 198.51.100.7 192.0.2.2 4444 80\r\n", "PROXY TCP6 2001:db8::7 2001:db8::2 4444 80\r\n", "PROXY UNKNOWN\r\n"):
            for where in (1, 2):
                stream = f + (line if where == 1 else second + line) + second
                for cfg, proxy in ((5, 0), (5, 2), (6, 0), (0, 0)):
                    for cut, mode in ((0, "one"), (len(f), "one"), (3, "after-every-crlf")):
                        n += 1
                        if n % nshards == shard:
                            yield {"stream": stream, "cfg": cfg, "proxy": proxy, "cut": cut, "consume": n % 2, "cut_mode": mode}


EXHAUSTIVE_NOTE = ("chunked-with-trailers pipelines: %d conforming streams (body 11 B / 8150 B x 0-2 trailer fields x last-chunk extension x "
                   "2 followers) x every single read boundary from the last-chunk line to 12 bytes into the follower x 2 consumption modes, "
                   "plus the multi-cut modes; and every HTTP-version 0.0-2.9 x 5 framings (chunked, chunked+CL, gzip+chunked, CL, none) x 2 configs "
                   "with a request-shaped body; and PROXY lines in front of the 2nd / 3rd request of a connection x 4 configs x 3 feeds" % len(_pipelines()))


def _head(r):
    return [r["method"], r["uri"], list(r["version"]), [list(h) for h in r["headers"]]]


def judge(stream, reqs, terminal):
    vio = []
    classes = []
    pos = 0
    has_framing_hdr = b"ontent-" in stream or b"ransfer-" in stream or b"ONTENT-" in stream or b"RANSFER" in stream
    interesting = False
    listed_hit = False
    no_more_allowed = None      # reason why no further request may be yielded
    refs = []
    for k, r in enumerate(reqs):
        ref = ref_request.parse_request(stream, pos)
        refs.append(ref)
        classes.append("ref:" + ref.kind + (":" + ref.cls if ref.cls else ""))
        if no_more_allowed is not None:
            vio.append(Violation("no-request-after", "C01/request-after-%s" % no_more_allowed,
                                 observed={"yielded": _brief(r), "index": k}, expected="no further request"))
            break
        if ref.kind in ("end", "head_incomplete"):
            vio.append(Violation("yield-without-request", "C01/yield-on-%s" % ref.kind,
                                 observed=_brief(r), expected=ref.kind))
            break
        if ref.kind == "reject":
            if ref.listed:
                listed_hit = True
                vio.append(Violation("must-reject", "C01/accepted:%s" % ref.cls,
                                     observed=_brief(r), expected="rejected (%s)" % ref.cls))
            else:
                classes.append("soft-accepted:" + ref.cls)
            break
        if ref.kind == "tolerated_close":
            classes.append("tolerated_close")
            no_more_allowed = "te-without-chunked"
            continue
        if r["body"]:
            interesting = True
        if ref.kind == "ok":
            if r["body_error"] is None:
                if r["body"] != ref.body:
                    vio.append(Violation("body-bytes", "C01/body-differs:%s" % ref.framing,
                                         observed={"body": r["body"], "req": _brief(r)}, expected={"body": ref.body}))
                    break
                if r["end"] != ref.end:
                    vio.append(Violation("end-offset", "C01/end-offset-differs:%s" % ref.framing,
                                         observed={"end": r["end"], "req": _brief(r)}, expected={"end": ref.end}))
                    break
                pos = ref.end
                if k > 0:
                    interesting = True
            else:
                # stricter than the reference: fine, but then the connection is finished
                if not ref.body.startswith(r["body"]):
                    vio.append(Violation("body-prefix", "C01/body-not-prefix-before-error",
                                         observed={"body": r["body"]}, expected={"prefix_of": ref.body}))
                classes.append("stricter-body:" + r["body_error"])
                no_more_allowed = "body-error"
        elif ref.kind == "body_reject":
            listed_hit = listed_hit or ref.listed
            if r["body_error"] is None:
                vio.append(Violation("must-reject-body", "C01/accepted-body:%s" % ref.cls,
                                     observed={"body": r["body"], "req": _brief(r), "end": r["end"]},
                                     expected="reading the body raises (%s)" % ref.cls))
                break
            if not ref.body.startswith(r["body"]):
                vio.append(Violation("body-prefix", "C01/body-not-prefix-before-error",
                                     observed={"body": r["body"]}, expected={"prefix_of": ref.body}))
            no_more_allowed = "body-reject"
        elif ref.kind == "body_incomplete":
            if ref.framing == "chunked" and not ref.in_trailers and r["body_error"] is None:
                # the peer went away before the terminating chunk: only a chunked reader can (and must) tell the application
                vio.append(Violation("body-exact", "C01/truncated-chunked-body-handed-over-as-complete",
                                     observed={"body_len": len(r["body"]), "body_tail": r["body"][-40:]}, expected="an error from wsgi.input"))
            if not ref.body.startswith(r["body"]):
                vio.append(Violation("body-prefix", "C01/incomplete-body-not-prefix:%s" % ref.framing,
                                     observed={"body": r["body"]}, expected={"prefix_of": ref.body}))
            no_more_allowed = "incomplete-body"
    else:
        # what follows the last yielded request: only classify
        if no_more_allowed is None:
            ref = ref_request.parse_request(stream, pos)
            classes.append("after:" + ref.kind + (":" + ref.cls if ref.cls else ""))
            if ref.kind in ("reject", "body_reject") and ref.listed:
                listed_hit = True
    classes.append("terminal:" + terminal.split(":")[0])
    classes.append("yielded:%d" % len(reqs))
    nontrivial = (has_framing_hdr or len(reqs) >= 2) and (interesting or listed_hit)
    return Outcome(vio, nontrivial, classes,
                   sample={"stream": stream.decode("latin-1"), "yielded": len(reqs), "terminal": terminal,
                           "ref": [repr(x) for x in refs]})


def _brief(r):
    return {"method": r["method"], "uri": r["uri"], "version": list(r["version"]),
            "headers": [list(h) for h in r["headers"]][:12], "body": r["body"][:200],
            "body_error": r["body_error"], "end": r["end"]}


def campaign(tier, seed):
    """thorough tier only: two coverage-guided Atheris campaigns (empty corpus / repository fixtures) with the C01 and C06
    oracles inside the fuzz target.  -> dict(evaluations, failures=[{case, violation, property}], info)"""
    import json
    import os
    import shutil
    import subprocess
    import tempfile
    from vlib.common import VERIF
    if tier != "thorough":
        return None
    secs = int(os.environ.get("VERIF_FUZZ_SECONDS", "120"))
    out = {"evaluations": 0, "failures": [], "info": {}}
    procs = []
    for kind in ("empty", "fixtures"):
        wd = tempfile.mkdtemp(prefix="verif-fuzz-")
        p = subprocess.Popen([os.path.join(VERIF, "tools", "fuzz_parser.py"), wd, str(seed + 1), str(secs), kind],
                             stdout=subprocess.DEVNULL, stderr=subprocess.PIPE, text=True)
        procs.append((kind, wd, p))
    for kind, wd, p in procs:
        try:
            _, err = p.communicate(timeout=secs + 120)
        except subprocess.TimeoutExpired:
            p.kill()
            err = "timeout"
        res = {}
        try:
            with open(os.path.join(wd, "result.json")) as f:
                res = json.load(f)
        except (OSError, ValueError):
            pass
        out["evaluations"] += res.get("execs", 0)
        out["info"][kind] = {"execs": res.get("execs", 0), "requests_yielded": res.get("yielded", 0), "rejected": res.get("rejected", 0),
                             "seconds": secs, "libfuzzer_tail": (err or "")[-300:]}
        if res.get("violation"):
            out["failures"].append(res["violation"])
        shutil.rmtree(wd, True)
    return out
