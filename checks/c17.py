"""C17 The pid file names the running master, exclusively and atomically — engine F (real Pidfile, proxied os)."""
import atexit
import errno
import os
import shutil
import tempfile

from hypothesis import strategies as st

from vlib.common import Outcome, Violation

PROPERTY = "C17"
RULE = ("histories of up to 12 operations {create, validate, rename, unlink, foreign overwrite (live pid incl. 1 and 2 / dead pid / EPERM pid / "
        "garbage / empty / own pid), owner death, revive} by 3 instances (own fake pid each, one a decimal prefix of another's and of the live foreign pid) on 2 paths, executed by the real Pidfile "
        "class on a scratch directory with gunicorn.pidfile.os/tempfile/open proxied (per-instance getpid, model-driven kill(pid,0)); after "
        "every step the directory is compared with a path->content model (create refuses iff the file names another live pid and leaves "
        "it untouched, unlink/rename remove only a file holding the caller's pid, no temp files left). Plus, exhaustively, a crash "
        "(before / after / half-way through) every proxied system call of create and rename in 6 starting states: afterwards the path is "
        "absent, or holds the complete previous content, or the complete new '<pid>\\n'. non-trivial = >=2 instances touch one path or a "
        "crash point fired; distinct by case hash")
ASSUMPTIONS = [
    "liveness of a recorded pid is what kill(pid, 0) reports (EPERM counts as alive); pids are fake and model-driven",
    "interleavings inside one operation (read-then-unlink TOCTOU between two masters) are outside the quantifier and not injected",
    "a crash is modelled as the process vanishing at a system-call boundary (or after a partial write)",
]
BUDGET = {"quick": (16, 400), "thorough": (16, 20000)}

PIDS = [4101, 41017, 4303]           # instances (the first is a decimal prefix of the second and of the live foreign pid: pid comparisons are numeric)
FOREIGN_LIVE, FOREIGN_DEAD, FOREIGN_EPERM = 43035, 5002, 5003
_state = {}


class Crash(BaseException):
    pass


class OsProxy(object):
    """stands in for the `os` module inside gunicorn.pidfile"""

    def __init__(self, world):
        self._w = world
        self.path = os.path

    def __getattr__(self, name):
        real = getattr(os, name)
        if not callable(real):
            return real
        w = self._w

        def call(*a, **kw):
            return w.syscall(name, real, a, kw)
        return call


class TempProxy(object):
    def __init__(self, world):
        self._w = world

    def mkstemp(self, *a, **kw):
        return self._w.syscall("mkstemp", tempfile.mkstemp, a, kw)


class FileProxy(object):
    """what the builtin open() gives gunicorn.pidfile for a write mode: the open (with its truncation) is one system call, the data
    sit in a user-space buffer until flush()/close(), which is one write() and one close() system call"""

    def __init__(self, world, path, mode, encoding=None):
        flags = os.O_WRONLY | os.O_CREAT
        if "a" in mode:
            flags |= os.O_APPEND
        elif "x" in mode:
            flags |= os.O_EXCL
        elif "+" not in mode or "w" in mode:
            flags |= os.O_TRUNC
        if "+" in mode:
            flags = (flags & ~os.O_WRONLY) | os.O_RDWR
        self._w = world
        self._binary = "b" in mode
        self._enc = encoding or "utf-8"
        self._buf = b""
        self.closed = False
        self._fd = world.syscall("open", os.open, (path, flags, 0o666), {})

    def write(self, data):
        self._buf += data if self._binary else data.encode(self._enc)
        return len(data)

    def flush(self):
        if self._buf:
            data, self._buf = self._buf, b""
            self._w.syscall("write", os.write, (self._fd, data), {})

    def fileno(self):
        return self._fd

    def close(self):
        if not self.closed:
            self.closed = True
            try:
                self.flush()
            finally:
                self._w.syscall("close", os.close, (self._fd,), {})

    def __enter__(self):
        return self

    def __exit__(self, et, ev, tb):
        if et is not None and issubclass(et, Crash):
            self.closed = True
            os.close(self._fd)       # the process is gone: nothing more reaches the disk
            return False
        self.close()
        return False


class World(object):
    def open_file(self, path, mode="r", *a, **kw):
        if not any(c in mode for c in "wax+"):
            return open(path, mode, *a, **kw)
        return FileProxy(self, path, mode, kw.get("encoding"))

    def __init__(self, d):
        self.dir = d
        self.cur_pid = None
        self.alive = set()
        self.eperm = {FOREIGN_EPERM}
        self.calls = 0
        self.crash_at = None          # (n, when)
        self.snapshot = None
        self.trace = []

    def syscall(self, name, real, a, kw):
        if name == "getpid":
            return self.cur_pid
        if name == "kill":
            pid, sig = a
            self.trace.append("kill(%s)" % pid)
            if pid in self.alive:
                return None
            if pid in self.eperm:
                raise OSError(errno.EPERM, "Operation not permitted")
            raise OSError(errno.ESRCH, "No such process")
        n = self.calls
        self.calls += 1
        self.trace.append(name)
        if self.crash_at and self.crash_at[0] == n:
            when = self.crash_at[1]
            if when == "before":
                self.snapshot = listing(self.dir)
                raise Crash("before %s" % name)
            if when == "partial" and name == "write":
                fd, data = a
                os.write(fd, data[:max(1, len(data) // 2)])
                self.snapshot = listing(self.dir)
                raise Crash("partial write")
            r = real(*a, **kw)
            # what is on disk at the instant the process dies (buffered data not yet written is lost with the process;
            # unwinding the exception in this harness must not be allowed to flush it into the verdict)
            self.snapshot = listing(self.dir)
            raise Crash("after %s" % name)
        return real(*a, **kw)


def G():
    if _state.get("pid") == os.getpid():
        return _state
    d = tempfile.mkdtemp(prefix="verif-c17-")
    atexit.register(shutil.rmtree, d, True)
    _state.clear()
    _state.update(pid=os.getpid(), dir=d)
    return _state


OPS = st.one_of(
    st.tuples(st.just("create"), st.integers(0, 2), st.integers(0, 1)),
    st.tuples(st.just("create"), st.integers(0, 2), st.integers(0, 1)),
    st.tuples(st.just("validate"), st.integers(0, 2), st.integers(0, 1)),
    st.tuples(st.just("unlink"), st.integers(0, 2), st.just(0)),
    st.tuples(st.just("rename"), st.integers(0, 2), st.integers(0, 1)),
    st.tuples(st.just("foreign"), st.sampled_from(["live", "dead", "eperm", "garbage", "empty", "inst0", "inst1", "nonl", "zero", "one", "two"]),
              st.integers(0, 1)),
    st.tuples(st.just("die"), st.integers(0, 2), st.just(0)),
    st.tuples(st.just("revive"), st.integers(0, 2), st.just(0)),
)


def strategy(tier):
    return st.fixed_dictionaries({"kind": st.just("history"),
                                  "ops": st.lists(OPS, min_size=1, max_size=12).map(lambda l: [list(x) for x in l])})


START_STATES = ["absent", "stale", "garbage", "own", "live-other", "live-pid-1"]


REAL_HISTORIES = [["hup"], ["hup", "hup"], ["hup", "hup", "hup"], ["usr2", "term-old"], ["hup", "usr2", "term-new", "hup"], []]


def run_real(case):
    """the arbiter's call sites (start, reload, promotion, halt) on a real master: after every step the configured pid file exists,
    holds the pid of the running master and makes a second instance refuse; after TERM it is gone"""
    import signal
    import time
    from vlib import renv
    import gunicorn.pidfile as pf
    srv = renv.Server(kind="sync", workers=1, bind="unix", graceful=2, timeout=30)
    vio = []

    def V(clause, sig, observed=None, expected=None):
        vio.append(Violation(clause, "C17/real:" + sig, observed={"detail": observed, "case": case, "log_tail": srv.logtext()[-800:]},
                             expected=expected))

    def read(path):
        try:
            return open(path).read()
        except OSError:
            return None

    def check(master, label):
        cur = None
        for _ in range(40):
            cur = read(srv.pidfile)
            if cur == "%d\n" % master:
                break
            time.sleep(0.05)
        if cur != "%d\n" % master:
            V("names-running-master", "pidfile-does-not-name-the-master:" + label, {"content": cur, "master": master}, "%d" % master)
            return
        try:
            pf.Pidfile(srv.pidfile).create(os.getpid())
            V("exclusive", "second-instance-not-refused:" + label, {"content": read(srv.pidfile)}, "RuntimeError: Already running")
        except RuntimeError:
            pass

    try:
        if not srv.wait_ready():
            return Outcome([], False, ["engine:R", "inconclusive:not-ready"])
        master = srv.pid
        check(master, "start")
        for step in case["history"]:
            if vio:
                break
            if step == "hup":
                before = srv.workers(master)
                os.kill(master, signal.SIGHUP)
                t0 = time.time()
                while time.time() - t0 < 8 and (set(srv.workers(master)) & set(before) or not srv.workers(master)):
                    time.sleep(0.05)
                time.sleep(0.2)
                check(master, "after-hup")
            elif step == "usr2":
                os.kill(master, signal.SIGUSR2)
                t0 = time.time()
                new = None
                while time.time() - t0 < 10:
                    c = read(srv.pidfile + ".2")
                    if c and c.strip().isdigit() and renv.children(int(c)):
                        new = int(c)
                        break
                    time.sleep(0.05)
                if not new:
                    V("upgrade", "no-new-master", None, "pidfile.2")
                    break
                check(master, "during-upgrade")
            elif step == "term-old":
                os.kill(master, signal.SIGTERM)
                srv.wait_exit(8)
                master = new
                t0 = time.time()
                while time.time() - t0 < 5 and read(srv.pidfile) != "%d\n" % master:
                    time.sleep(0.05)
                check(master, "after-promotion")
            elif step == "term-new":
                os.kill(new, signal.SIGTERM)
                t0 = time.time()
                while time.time() - t0 < 8 and renv.alive(new):
                    time.sleep(0.05)
                time.sleep(0.3)
                check(master, "after-rollback")
        if not vio:
            os.kill(master, signal.SIGTERM)
            t0 = time.time()
            while time.time() - t0 < 8 and renv.alive(master):
                time.sleep(0.05)
            time.sleep(0.2)
            if read(srv.pidfile) is not None:
                V("removed-at-exit", "pidfile-left-after-term", {"content": read(srv.pidfile)}, "removed")
        return Outcome(vio, True, ["engine:R", "history:" + "+".join(case["history"] or ["none"])], key="R|" + "+".join(case["history"]),
                       sample={"case": case})
    finally:
        srv.cleanup()


def extra_cases(tier, seed, shard, nshards):
    for i, h in enumerate(REAL_HISTORIES):
        if (i + seed) % nshards == shard:
            yield {"kind": "real", "history": h}
    n = 0
    for op in ("create", "rename"):
        for start in START_STATES:
            for at in range(0, 10):
                for when in ("before", "after", "partial"):
                    n += 1
                    if n % nshards == shard:
                        yield {"kind": "crash", "op": op, "start": start, "at": at, "when": when}


EXHAUSTIVE_NOTE = ("crash points: {create, rename} x 6 starting states x proxied system-call index 0..9 x {before, after, partial write} "
                   "enumerated completely (indices beyond the last call of an operation are no-ops and counted as trivial)")

FOREIGN = {"live": "%d\n" % FOREIGN_LIVE, "dead": "%d\n" % FOREIGN_DEAD, "eperm": "%d\n" % FOREIGN_EPERM, "garbage": "not-a-pid\n",
           "empty": "", "one": "1\n", "two": "2\n", "inst0": "%d\n" % PIDS[0], "inst1": "%d\n" % PIDS[1], "nonl": "%d" % FOREIGN_LIVE, "zero": "0\n"}


def names_live_pid(content, world):
    """model of 'the file names a live process' -> pid or None"""
    try:
        q = int(content)
    except ValueError:
        return None
    if q in world.alive or q in world.eperm:
        return q
    return None


def listing(d):
    out = {}
    for n in sorted(os.listdir(d)):
        with open(os.path.join(d, n), "rb") as f:
            out[n] = f.read().decode("latin-1")
    return out


def run_case(case):
    if case["kind"] == "real":
        return run_real(case)
    import gunicorn.pidfile as pf
    g = G()
    d = tempfile.mkdtemp(dir=g["dir"])
    world = World(d)
    world.alive = set(PIDS) | {FOREIGN_LIVE, 1, 2}        # (pid 1: a master running as the init process of a container)
    old_os, old_tmp = pf.os, pf.tempfile
    pf.os, pf.tempfile = OsProxy(world), TempProxy(world)
    pf.open = world.open_file          # the builtin, as seen from gunicorn.pidfile
    try:
        if case["kind"] == "crash":
            return run_crash(case, pf, world, d)
        return run_history(case, pf, world, d)
    finally:
        pf.os, pf.tempfile = old_os, old_tmp
        pf.__dict__.pop("open", None)
        shutil.rmtree(d, True)


def run_history(case, pf, world, d):
    paths = [os.path.join(d, "gunicorn.pid"), os.path.join(d, "gunicorn.pid.2")]
    names = ["gunicorn.pid", "gunicorn.pid.2"]
    model = {}                         # name -> content
    objs = {}                          # instance -> Pidfile (its current one)
    mpath = {}                         # instance -> name its Pidfile object points at
    mpid = {}                          # instance -> value of Pidfile.pid in the model (None until a create really wrote)
    vio = []
    touched = {0: set(), 1: set()}
    steps = []

    def V(clause, sig, observed=None, expected=None):
        vio.append(Violation(clause, "C17/" + sig, observed={"detail": observed, "steps": steps, "disk": listing(d), "model": model},
                             expected=expected))

    for op, a, b in case["ops"]:
        steps.append([op, a, b])
        if op in ("die", "revive"):
            (world.alive.discard if op == "die" else world.alive.add)(PIDS[a])
            continue
        if op == "foreign":
            with open(paths[b], "w") as f:
                f.write(FOREIGN[a])
            model[names[b]] = FOREIGN[a]
            touched[b].add("foreign")
            continue
        inst = a
        pid = PIDS[inst]
        if pid not in world.alive:
            continue                   # a dead master does nothing
        world.cur_pid = pid
        raised = None
        result = None
        try:
            if op == "create":
                objs[inst] = pf.Pidfile(paths[b])
                mpath[inst] = names[b]
                mpid[inst] = None
                touched[b].add(inst)
                objs[inst].create(pid)
            elif op == "validate":
                o = objs.get(inst) or pf.Pidfile(paths[b])
                result = o.validate()
            elif op == "unlink":
                if inst in objs:
                    objs[inst].unlink()
            elif op == "rename":
                if inst in objs:
                    touched[b].add(inst)
                    objs[inst].rename(paths[b])
        except RuntimeError as e:
            raised = e
        except Exception as e:      # noqa
            V("no-unexpected-error", "%s-raised-%s" % (op, type(e).__name__), repr(e))
            break
        # ---- model
        if op == "create":
            cur = model.get(names[b])
            q = names_live_pid(cur, world) if cur is not None else None
            if q is not None and q != pid:
                if raised is None:
                    V("refuse-live", "create-over-live-pid-file", {"file_named": q, "by": pid}, "RuntimeError, file untouched")
                    break
            else:
                if raised is not None:
                    V("take-over-stale", "create-refused-on-stale-or-absent", {"content": cur, "error": str(raised)}, "file created")
                    break
                if q != pid:
                    model[names[b]] = "%d\n" % pid
                    mpid[inst] = pid
        elif op == "validate":
            target = names[b] if inst not in objs else mpath[inst]
            cur = model.get(target)
            want = names_live_pid(cur, world) if cur is not None else None
            if want == 0:
                want = 0
            if result != want and not (result in (None, 0) and want in (None, 0)):
                V("validate", "validate-result-differs", {"got": result, "content": cur}, want)
                break
        elif op == "unlink" and inst in objs:
            cur = model.get(mpath[inst])
            if cur is not None and _int(cur) == mpid[inst] and mpid[inst] is not None:
                del model[mpath[inst]]
        elif op == "rename" and inst in objs:
            cur = model.get(mpath[inst])
            if cur is not None and _int(cur) == mpid[inst] and mpid[inst] is not None:
                del model[mpath[inst]]
            mpath[inst] = names[b]
            tgt = model.get(names[b])
            q = names_live_pid(tgt, world) if tgt is not None else None
            # Pidfile.rename() re-creates with the pid it holds (None if it never wrote one)
            if q is not None and q != pid:
                if raised is None:
                    V("refuse-live", "rename-over-live-pid-file", {"file_named": q, "by": pid}, "RuntimeError, target untouched")
                    break
            else:
                if raised is not None:
                    V("take-over-stale", "rename-refused-on-stale-or-absent", {"content": tgt, "error": str(raised)}, "renamed")
                    break
                if q != pid:
                    model[names[b]] = "%s\n" % (mpid[inst],)
        disk = listing(d)
        if disk != model:
            extra = sorted(set(disk) - set(model))
            if extra and all(n not in names for n in extra):
                V("no-leftovers", "temp-file-left-behind", {"extra": extra}, "only pid files")
            else:
                who = "foreign" if any(names[i] in disk or names[i] in model for i in (0, 1)) else ""
                deleted = [n for n in model if n not in disk]
                sig = "%s-deleted-file-of-another-instance" % op if deleted else "%s-file-content-differs" % op
                V("disk-equals-model", sig, {"disk": disk, "op": [op, a, b]}, {"model": dict(model)})
            break
        for n, cnt in disk.items():
            if n in names and op in ("create", "rename") and raised is None:
                st_mode = os.stat(os.path.join(d, n)).st_mode & 0o777
                if n == names[b] and st_mode != 0o644:
                    V("mode", "pid-file-mode", oct(st_mode), "0644")
    nontrivial = any(len([x for x in t if x != "foreign"]) + (1 if "foreign" in t else 0) >= 2 for t in touched.values())
    return Outcome(vio, nontrivial, ["kind:history", "ops:%d" % len(case["ops"])], sample={"ops": case["ops"]})


def _int(s):
    try:
        return int(s or 0)
    except ValueError:
        return None


def run_crash(case, pf, world, d):
    path = os.path.join(d, "gunicorn.pid")
    me = PIDS[0]
    start = case["start"]
    prev = {"absent": None, "stale": "%d\n" % FOREIGN_DEAD, "garbage": "junk", "own": "%d\n" % me, "live-other": "%d\n" % FOREIGN_LIVE, "live-pid-1": "1\n"}[start]
    world.cur_pid = me
    src = os.path.join(d, "old.pid")
    if case["op"] == "rename":
        o = pf.Pidfile(src)
        o.create(me)
    if prev is not None:
        with open(path, "w") as f:
            f.write(prev)
    world.calls = 0
    world.trace = []
    world.crash_at = (case["at"], case["when"])
    crashed = False
    raised = None
    try:
        if case["op"] == "create":
            pf.Pidfile(path).create(me)
        else:
            o.rename(path)
    except Crash:
        crashed = True
    except RuntimeError as e:
        raised = e
    vio = []
    world.crash_at = None
    if crashed and world.snapshot is not None:
        now = world.snapshot.get("gunicorn.pid")
    else:
        try:
            with open(path, "rb") as f:
                now = f.read().decode("latin-1")
        except FileNotFoundError:
            now = None
    allowed = [None, prev, "%d\n" % me]
    if now not in allowed:
        vio.append(Violation("atomic-content", "C17/partial-or-foreign-content-after-crash:%s" % case["op"],
                             observed={"content": now, "trace": world.trace, "crash": [case["at"], case["when"]], "start": start},
                             expected={"one_of": allowed}))
    if start in ("live-other", "live-pid-1") and now != prev:
        vio.append(Violation("refuse-live", "C17/live-pid-file-replaced:%s" % case["op"], observed={"content": now}, expected=prev))
    if not crashed and raised is None and now != "%d\n" % me and not (start == "own" and case["op"] == "create"):
        vio.append(Violation("create-completes", "C17/uncrashed-%s-did-not-write-pid" % case["op"], observed={"content": now}, expected="%d\n" % me))
    return Outcome(vio, crashed, ["kind:crash", "crashed:%s" % crashed, "op:" + case["op"], "start:" + start],
                   sample={"case": case, "trace": world.trace, "content_after": now})
