"""C10 Reload (HUP) replaces every worker without refusing or cutting a request — engine R."""
import hashlib
import itertools
import signal
import threading
import time

from vlib.common import Outcome, Violation
from vlib import renv

PROPERTY = "C10"
RULE = ("worker class {sync,gthread,gevent,eventlet} x bind spelling {numeric IPv4, unix path, host name, IPv6 literal} x history of 1-3 HUPs "
        "(optionally preceded by TTIN/TTOU; two histories send the HUPs 0.05-0.3 s apart while workers boot slowly through a post_fork hook) at seeded "
        "times x config file rewritten before each HUP (workers changed, raw_env marker bumped) under a continuous stream of short "
        "requests on fresh connections plus one long gated request in flight across the first HUP, against a real master started from "
        "the working tree. Oracle: the master's listening sockets are the same kernel objects after the reloads; no connect is ever refused/reset; every response that began is complete; with sync workers every "
        "accepted connection is answered; the long request is answered in full by the pid that started it; after quiescence the master's "
        "children are exactly the newly configured number, none of them older than the last HUP, and every response carries the new "
        "marker. non-trivial = a request was in flight across a HUP; distinct by cell")
ASSUMPTIONS = [
    "for gthread/gevent/eventlet a connection accepted but not yet read may be closed without any response byte (the statement "
    "promises every accepted connection only for sync): such empty responses are counted, not flagged; a gthread connection whose "
    "job has been handed to the thread pool counts as started (one cell: a request queued behind the long one must be answered by the old worker)",
    "quiescence = the worker set is stable for 1.5 s, waited for at most graceful_timeout + 8 s",
]
BUDGET = {"quick": (16, 0), "thorough": (16, 0)}
G = 4
KINDS = ["sync", "gthread", "gevent", "eventlet"]
BINDS = ["tcp", "unix", "tcp-name", "tcp6"]        # numeric IPv4, unix path, host name, IPv6 literal
NHIST = 14


def cells():
    for kind, bind, hist in itertools.product(KINDS, BINDS, range(NHIST)):
        h = [
            {"pre": [], "workers": [2]},
            {"pre": [], "workers": [3, 1]},
            {"pre": ["TTIN"], "workers": [2]},
            {"pre": ["TTIN", "TTIN"], "workers": [1, 2]},
            {"pre": ["TTOU"], "workers": [2, 2, 3]},
            {"pre": [], "workers": [1]},
            {"pre": ["TTIN"], "workers": [3]},
            {"pre": [], "workers": [2, 3, 2]},
            {"pre": [], "workers": [3, None]},           # None: the settings are removed from the file -> built-in defaults again
            {"pre": ["TTIN"], "workers": [None]},
            # HUPs in quick succession while the previous reload's workers are still booting (a legal post_fork hook that takes a
            # moment widens the window between fork() and the worker installing its own signal handlers)
            {"pre": [], "workers": [3, 2], "slow_boot": 0.4},
            {"pre": ["TTIN"], "workers": [2, 2, 1], "slow_boot": 0.3},
            # the next HUP arrives while the previous reload is still running (an on_reload hook that takes a moment; the file has been
            # edited again by then): the last configuration must win
            {"pre": [], "workers": [3, 2], "slow_reload": 0.6},
            {"pre": [], "workers": [2, 3, 1], "slow_reload": 0.5},
        ][hist]
        c = {"kind": kind, "bind": bind, "start_workers": 2, "pre": h["pre"], "workers": h["workers"], "hist": hist}
        if h.get("slow_boot"):
            c["slow_boot"] = h["slow_boot"]
        if h.get("slow_reload"):
            c["slow_reload"] = h["slow_reload"]
        yield c
    # the bind address was changed by an earlier reload; the reloads that are judged keep it
    for kind in KINDS:
        yield {"kind": kind, "bind": "unix", "start_workers": 2, "pre": [], "workers": [2, 3], "hist": NHIST + 2, "rebind": True}
    # two listeners: the request in flight across the HUP is on one of them, the short requests go to the first
    for kind, which in itertools.product(KINDS, [0, 1]):
        yield {"kind": kind, "bind": "unix", "start_workers": 1, "pre": [], "workers": [1], "hist": NHIST + which, "two_binds": which}
    # gthread with one thread: a second request is already handed to the pool (queued behind the long one) when the HUP arrives
    yield {"kind": "gthread", "bind": "unix", "start_workers": 1, "pre": [], "workers": [1], "hist": NHIST + 4, "queued": True}
    # two listeners of different kinds (a TCP address and a unix path in one bind list)
    for kind in KINDS:
        yield {"kind": kind, "bind": "tcp", "start_workers": 1, "pre": [], "workers": [2], "hist": NHIST + 3, "two_binds": 0}


def extra_cases(tier, seed, shard, nshards):
    cs = list(cells())
    cs.sort(key=lambda c: hashlib.sha1(("%d|%s|%s|%d" % (seed, c["kind"], c["bind"], c["hist"])).encode()).hexdigest())
    if tier == "quick":
        picked, seen = [], set()
        for c in cs:                      # every kind x bind, and every history, at least once
            if (c["kind"], c["bind"]) not in seen or ("h", c["hist"]) not in seen:
                seen.add((c["kind"], c["bind"]))
                seen.add(("h", c["hist"]))
                picked.append(c)
        two = [c for c in cs if c.get("two_binds") is not None or c.get("rebind") or c.get("queued")]       # the two-listener and moved-listener cells are all kept
        picked = [c for c in picked if c not in two]
        cs = two + (picked + [c for c in cs if c not in picked and c not in two])[:41 - len(two)]
    for i, c in enumerate(cs):
        if i % nshards == shard:
            j = int(hashlib.sha1(("%d-%d" % (seed, i)).encode()).hexdigest()[:4], 16) / 65535.0
            yield dict(c, gap=round(0.05 + 0.25 * j, 2) if (c.get("slow_boot") or c.get("slow_reload")) else round(0.2 + 0.8 * j, 2))


EXHAUSTIVE_NOTE = "(+ 8 two-listener cells) thorough: all %d cells (4 classes x %d bind spellings x %d histories); quick: a seeded slice of up to 41 covering every class x bind and every history" % (4 * len(BINDS) * NHIST, len(BINDS), NHIST)


class Load(threading.Thread):
    def __init__(self, srv):
        threading.Thread.__init__(self, daemon=True)
        self.srv = srv
        self.stop = False
        self.results = []          # (t, kind, detail)

    def run(self):
        while not self.stop:
            t = time.time()
            r, data, err = self.srv.request("/pid", timeout=6.0)
            if err and err.startswith("connect:"):
                self.results.append((t, "connect-error", err))
            elif r is None or not data:
                self.results.append((t, "empty", err))
            elif r.ok and r.complete and not r.errors and r.status == 200:
                self.results.append((t, "ok", data[-200:].decode("latin-1")))
            else:
                self.results.append((t, "truncated", (data[:200], err)))
            time.sleep(0.005)


def sock_inodes(pid):
    """inodes of the sockets a process holds open (for the master: its listeners)"""
    import os
    out = set()
    try:
        for fd in os.listdir("/proc/%d/fd" % pid):
            try:
                t = os.readlink("/proc/%d/fd/%s" % (pid, fd))
            except OSError:
                continue
            if t.startswith("socket:["):
                out.add(t)
    except OSError:
        pass
    return out


def stable_workers(srv, limit):
    t0 = time.time()
    last, since = None, time.time()
    while time.time() - t0 < limit:
        w = srv.workers()
        if w != last:
            last, since = w, time.time()
        elif time.time() - since >= 1.5:
            return w
        time.sleep(0.1)
    return srv.workers()


def run_case(case):
    kind, bind = case["kind"], case["bind"]
    classes = ["kind:" + kind, "bind:" + bind, "hist:%d" % case["hist"]]
    slow = (["import time", "def post_fork(server, worker):", "    time.sleep(%s)" % case["slow_boot"]] if case.get("slow_boot") else [])
    if case.get("slow_reload"):
        slow = ["import time", "def on_reload(server):", "    time.sleep(%s)" % case["slow_reload"]]
    second = None
    if case.get("two_binds") is not None:
        import os as _os
        import tempfile as _tf
        second = _os.path.join(_tf.gettempdir(), "verif-c10-second-%d-%d.sock" % (_os.getpid(), int(time.time() * 1000) % 100000))
    srv = renv.Server(kind=kind, workers=None, bind=bind, graceful=G, timeout=30,
                      threads=(1 if case.get("queued") else 2) if kind == "gthread" else None, keepalive=2,
                      conf_lines=["workers = %d" % case["start_workers"], "raw_env = ['VERIF_MARKER=m0']"] + slow,
                      extra_binds=["unix:" + second] if second else (), bind_in_conf=bool(case.get("rebind")))
    vio = []

    def V(clause, sig, observed=None, expected=None):
        vio.append(Violation(clause, "C10/" + sig, observed={"detail": observed, "case": case, "log_tail": srv.logtext()[-1200:]},
                             expected=expected))

    load = None
    try:
        if not srv.wait_ready():
            return Outcome([], False, classes + ["inconclusive:not-ready"], sample={"case": case})
        if case.get("rebind"):
            # an earlier reload moves the listener (not judged: nobody is connected); everything after it keeps the new address
            moved = srv.scratch + "/moved.sock"
            slow = slow + ["bind = 'unix:%s'" % moved]
            srv.write_conf(["workers = %d" % case["start_workers"], "raw_env = ['VERIF_MARKER=m0']"] + slow)
            srv.signal(signal.SIGHUP)
            srv.addr = srv.sockpath = moved
            t0 = time.time()
            while time.time() - t0 < 10 and not renv.connectable(srv):
                time.sleep(0.1)
            if not srv.wait_ready(15):
                return Outcome([], False, classes + ["inconclusive:not-ready-after-rebind"], sample={"case": case})
        for s in case["pre"]:
            srv.signal(getattr(signal, "SIG" + s))
            time.sleep(0.4)
        stable_workers(srv, 6)
        listeners_before = sock_inodes(srv.pid)
        load = Load(srv)
        load.start()
        time.sleep(0.3)
        # long request in flight across the first HUP
        if case.get("two_binds") == 1:
            first_addr, srv.addr = srv.addr, second
            lc = srv.connect()
            srv.addr = first_addr
        else:
            lc = srv.connect()
        lc.sendall(b"GET /gate/L1 HTTP/1.1\r\nHost: x\r\nConnection: close\r\n\r\n")
        if not srv.started("L1"):
            return Outcome([], False, classes + ["inconclusive:long-request-not-started"], sample={"case": case})
        long_pid = open(srv.scratch + "/started-L1").read().strip()
        qc = None
        if case.get("queued"):
            qc = srv.connect()
            qc.sendall(b"GET /pid?queued HTTP/1.1\r\nHost: x\r\nConnection: close\r\n\r\n")
            time.sleep(0.5)          # the only pool thread is busy: the loop accepts, reads nothing yet and submits the job
        t_last_hup = None
        old_pids = set()
        for i, n in enumerate(case["workers"]):
            old_pids |= set(srv.workers())
            if n is None:
                srv.write_conf(["# nothing configured any more"])
            else:
                srv.write_conf(["workers = %d" % n, "raw_env = ['VERIF_MARKER=m%d']" % (i + 1)] + slow)
            t_last_hup = time.time()
            srv.signal(signal.SIGHUP)
            time.sleep(case["gap"])
            if i == 0:
                srv.gate_open("L1")
        ldata, lerr = renv.read_all(lc, G + 6)
        lc.close()
        if qc is not None:
            qdata, qerr = renv.read_all(qc, G + 6)
            qc.close()
            from vlib import ref_response as _rr
            qr = _rr.parse_response(qdata, 0, "GET") if qdata else None
            if qr is None or not (qr.ok and qr.complete and qr.status == 200) or ("pid=%s " % long_pid).encode() not in qr.body:
                V("queued-request-answered", "request-queued-in-the-old-worker-at-hup-not-answered-by-it:" + kind,
                  {"received": qdata[:200], "error": qerr, "old_worker": long_pid}, "complete response from the old worker")
        final = stable_workers(srv, G + 8)
        time.sleep(0.3)
        load.stop = True
        load.join(10)
        # ---- verdicts
        listeners_after = sock_inodes(srv.pid)
        if listeners_before and renv.alive(srv.pid) and not listeners_before <= listeners_after:
            V("listener-kept", "listening-socket-replaced-by-a-reload-that-kept-the-bind",
              {"before": sorted(listeners_before), "after": sorted(listeners_after)}, "the same socket(s)")
        from vlib import ref_response
        r = ref_response.parse_response(ldata, 0, "GET") if ldata else None
        if r is None or not (r.ok and r.complete and r.status == 200 and b"gate-done" in r.body):
            V("long-request-answered", "request-in-flight-across-hup-not-answered:" + kind, {"received": ldata[:200], "error": lerr},
              "complete response")
        elif ("pid=%s " % long_pid).encode() not in r.body:
            V("answered-by-old-worker", "long-request-answered-by-another-pid", {"started": long_pid, "body": r.body[:120]}, long_pid)
        res = load.results
        kinds = {}
        for t, k, d in res:
            kinds[k] = kinds.get(k, 0) + 1
        ce = [x for x in res if x[1] == "connect-error"]
        tr = [x for x in res if x[1] == "truncated"]
        em = [x for x in res if x[1] == "empty"]
        if ce:
            V("never-refused", "connect-refused-during-reload:%s:%s" % (bind, ce[0][2].split(":")[1]),
              {"first": [round(ce[0][0] - t_last_hup, 2), ce[0][2]], "count": len(ce), "of": len(res)}, "no refused/reset connect")
        if tr:
            V("never-cut", "response-cut-during-reload:" + kind, {"first": tr[0][2], "count": len(tr), "of": len(res)}, "complete responses")
        if em and kind == "sync":
            V("sync-answers-every-accepted", "accepted-connection-unanswered:sync", {"count": len(em), "of": len(res)}, "every connection answered")
        want = case["workers"][-1] if case["workers"][-1] is not None else 1
        if len(final) != want:
            V("new-pool-size", "pool-size-after-reload-%d-expected-%d" % (len(final), want), {"children": final, "old": sorted(old_pids)}, want)
        stale = sorted(set(final) & old_pids)
        if stale:
            V("only-new-workers", "pre-reload-worker-survives", {"stale": stale, "children": final}, "only workers started after the last HUP")
        if not vio:
            marker = ("marker=m%d " % len(case["workers"])) if case["workers"][-1] is not None else "marker=- "
            bad = []
            for _ in range(8):
                r2, d2, e2 = srv.request("/pid", timeout=5)
                if r2 is None or marker.encode() not in r2.body:
                    bad.append((d2[-120:], e2))
            if bad:
                V("new-configuration", "response-with-old-configuration-after-reload", {"examples": bad[:2], "want": marker}, marker)
        classes += ["load-ok:%d" % min(kinds.get("ok", 0) // 50, 9), "empty:%d" % min(len(em), 3)]
        return Outcome(vio, True, classes, key="%s|%s|%d" % (kind, bind, case["hist"]),
                       sample={"case": case, "load": kinds, "final_workers": len(final)})
    finally:
        if load is not None:
            load.stop = True
        srv.cleanup()
        if second:
            try:
                __import__("os").unlink(second)
            except OSError:
                pass
