"""C16 Configuration sources are merged in the documented order of authority — engine G."""
import atexit
import io
import itertools
import os
import shlex
import shutil
import sys
import tempfile

from hypothesis import strategies as st

from vlib.common import Outcome, Violation

PROPERTY = "C16"
RULE = ("(exhaustive) every entry of KNOWN_SETTINGS x every non-empty subset of the sources able to express it (command line, "
        "GUNICORN_CMD_ARGS, config file, framework dict) x every ordered pair of distinct valid values of its validator family "
        "(families include falsy values: 0, '', False, None where the validator takes it, and list-valued/append options) ; plus one invalid value per validator family in "
        "each source alone and below a valid higher-priority mention; plus reload histories (the file mentions the setting, is edited - other "
        "value or mention removed - and the application reloads its configuration); plus -c/--config given by CLI vs environment; plus Hypothesis-drawn "
        "mixes of 1-6 settings over random source subsets. Oracle: priority fold CLI > env > file > framework dict > default on the "
        "validator's normal form, every unmentioned setting equals its built-in default, an invalid value => SystemExit != 0. "
        "non-trivial = >=2 sources mention the same setting with different values, or an invalid value is present; distinct by case hash")
ASSUMPTIONS = [
    "the normal form of a value is what the setting's own validator returns for it (the property is about merge order, not validators)",
    "default_proc_name and config are excluded from the 'untouched' comparison: the positional application argument sets the former",
    "booleans on the command line can only express their store_true/store_const value",
    "--paste on the command line / in GUNICORN_CMD_ARGS is not exercised (it imports paste.deploy, not installed in this sandbox)",
    "derived accessors (cfg.sendfile, cfg.address, ...) are not part of the statement and not compared, except the resolved worker class "
    "for worker_class in {sync, gthread} (documented: sync with threads > 1 runs the threaded worker), which must follow the effective "
    "worker_class/threads of this load whatever earlier loads in the same process resolved",
]
BUDGET = {"quick": (16, 120), "thorough": (16, 10000)}

SOURCES = ("cli", "env", "file", "dict")     # most authoritative first
SYNCISH = ("sync", "gunicorn.workers.sync.SyncWorker")
_state = {}


def G():
    """per-process lazy initialisation: scratch dir, families, defaults"""
    if _state.get("pid") == os.getpid():
        return _state
    from gunicorn import config, util
    scratch = tempfile.mkdtemp(prefix="verif-c16-")
    atexit.register(shutil.rmtree, scratch, True)
    for n in ("dirA", "dirB"):
        os.mkdir(os.path.join(scratch, n))
    for n in ("f1.txt", "f2.txt"):
        open(os.path.join(scratch, n), "w").write("x")
    for n in ("p1.ini", "p2.ini"):
        open(os.path.join(scratch, n), "w").write("[app:main]\nuse = egg:nothing\n")
    for cls in config.KNOWN_SETTINGS:
        if cls.name == "chdir":
            cls.default = scratch          # as if the process had been started in the scratch directory
    _state.clear()
    _state.update(pid=os.getpid(), scratch=scratch, config=config, util=util)
    _state["settings"] = {cls.name: cls for cls in config.KNOWN_SETTINGS}
    _state["families"] = build_families(scratch, config, util)
    base = config.Config()
    _state["defaults"] = {k: v.get() for k, v in base.settings.items()}
    return _state


def build_families(scratch, config, util):
    fam = {}
    P = lambda *a: os.path.join(scratch, *a)      # noqa
    for cls in config.KNOWN_SETTINGS:
        s = cls()
        name = s.name
        vname = cls.validator.__name__
        flag = s.cli[-1] if s.cli else None
        vals = []          # list of (py value or ("callable", tag, arity), cli tokens or None)
        bad = []           # (py value, cli tokens or None)

        def cli1(v):
            return [flag, str(v)] if flag else None

        if name == "config":
            continue
        if vname == "validate_pos_int":
            if name == "umask":
                vals = [(18, [flag, "022"]), (7, [flag, "7"]), (0, [flag, "0"])]
            else:
                vals = [(0, cli1(0)), (3, cli1(3)), (7, cli1(7))]
            bad = [(-1, [flag, "-1"] if flag else None), ("abc", [flag, "abc"] if flag else None), (("import", "os", "umask"), None)]
        elif vname == "validate_bool":
            if s.action == "store_true":
                vals = [(True, [flag]), (False, None)]
            elif s.action == "store_const":
                vals = [(s.const, [flag]), (not s.const, None)]
            bad = [("maybe", None), (3, None)]
        elif vname == "validate_string":
            if name == "paste":
                vals = [(P("p1.ini"), cli1(P("p1.ini"))), (P("p2.ini"), cli1(P("p2.ini")))]
            elif name == "loglevel":
                vals = [("debug", cli1("debug")), ("error", cli1("error")), ("", cli1(""))]
            else:
                vals = [("alpha", cli1("alpha")), (" beta ", cli1(" beta ")), ("", cli1(""))]
            bad = [(123, None), (["x"], None), (("import", "os", "getcwd"), None)]
        elif vname == "validate_class":
            if name == "worker_class":
                vals = [("gthread", cli1("gthread")), ("gevent", cli1("gevent")), ("sync", cli1("sync")),
                        ("gunicorn.workers.sync.SyncWorker", cli1("gunicorn.workers.sync.SyncWorker"))]
            else:
                vals = [("gunicorn.glogging.Logger", cli1("gunicorn.glogging.Logger")),
                        ("gunicorn.instrument.statsd.Statsd", cli1("gunicorn.instrument.statsd.Statsd"))]
            bad = [(42, None)]
        elif vname == "validate_list_string":
            a, b, c = {"bind": ("127.0.0.1:8001", "127.0.0.1:8002", "[::1]:8003"), "raw_env": ("A=1", "B=2", "C=3")}.get(
                name, ("a=b", "c=d", "e=f"))
            vals = [([a], [flag, a]), ([b, c], [flag, b, flag, c]), ([c], [flag, c])]
            bad = [([1, 2], None)]
        elif vname == "validate_list_of_existing_files":
            vals = [([P("f1.txt")], [flag, P("f1.txt")]), ([P("f2.txt"), P("f1.txt")], [flag, P("f2.txt"), flag, P("f1.txt")])]
            bad = [([P("missing.txt")], [flag, P("missing.txt")])]
        elif vname == "validate_string_to_addr_list":
            vals = [("10.0.0.1", cli1("10.0.0.1")), ("10.0.0.2, ::1", cli1("10.0.0.2, ::1")), ("", cli1("")), ("*", cli1("*"))]
            bad = [("999.1.1.1", cli1("999.1.1.1")), ("localhost", cli1("localhost"))]
        elif vname == "validate_string_to_list":
            vals = [("A,B", cli1("A,B")), ("C", cli1("C")), ("", cli1(""))]
            bad = [(5, None)]
        elif vname == "validate_dict":
            vals = [({"X-A": "1"}, None), ({"X-B": "2", "X-C": "3"}, None), ({}, None)]
            bad = [("notadict", None), ([("a", "b")], None)]
        elif vname == "validate_reload_engine":
            vals = [("poll", cli1("poll")), ("inotify", cli1("inotify"))]
            bad = [("bogus", cli1("bogus"))]
        elif vname in ("validate_user", "validate_group"):
            vals = [("nobody" if vname == "validate_user" else "nogroup", None), ("daemon", cli1("daemon")), ("12345", cli1("12345"))]
            vals[0] = (vals[0][0], cli1(vals[0][0]))
            bad = [("no_such_principal_xyz", cli1("no_such_principal_xyz")), (12.5, None), (["staff"], None)]
        elif vname == "validate_statsd_address":
            vals = [("localhost:8125", cli1("localhost:8125")), ("127.0.0.1:9125", cli1("127.0.0.1:9125"))]
            bad = [(5, None)]
        elif vname == "validate_ssl_version":
            vals = [("TLSv1_2", cli1("TLSv1_2")), ("TLSv1_1", cli1("TLSv1_1"))]
        elif vname == "validate_header_map_behaviour":
            vals = [("refuse", cli1("refuse")), ("dangerous", cli1("dangerous"))]
            bad = [("bogus", cli1("bogus"))]
        elif vname == "validate_chdir":
            vals = [(P("dirA"), cli1(P("dirA"))), (P("dirB"), cli1(P("dirB")))]
            bad = [(P("nonexistent"), cli1(P("nonexistent")))]
        elif vname in ("_validate_callable", "validate_post_request"):
            arity = util.get_arity(s.default)
            vals = [(("callable", "hookA", arity), None), (("callable", "hookB", arity), None)]
            bad = [(("callable", "hookBad", arity + 1 if vname == "_validate_callable" else 7), None), (17, None)]
        else:
            raise RuntimeError("no value family for validator %s (%s)" % (vname, name))
        if name == "paste":
            flag = None        # --paste imports paste.deploy at load time, which is not installed here: file/dict sources only
            vals = [(v[0], None) for v in vals]
        # None in a config file / framework dict is a mention like any other: valid where the validator takes it, invalid elsewhere
        if not any(v[0] is None for v in vals) and not any(b[0] is None for b in bad):
            try:
                old = sys.stderr
                sys.stderr = io.StringIO()
                try:
                    cls.validator(None)
                finally:
                    sys.stderr = old
                vals = vals + [(None, None)]
            except Exception:      # noqa
                bad = bad + [(None, None)]
        fam[name] = {"vals": vals, "bad": bad, "cli": bool(flag), "validator": cls.validator}
    return fam


def materialise(name, spec):
    """python object for a value spec (callables are built fresh so that file and dict sources get equal-looking objects)"""
    if isinstance(spec, (tuple, list)) and len(spec) == 3 and spec[0] == "import":
        return getattr(__import__(spec[1]), spec[2])
    if isinstance(spec, (tuple, list)) and len(spec) == 3 and spec[0] == "callable":
        _, tag, arity = spec
        ns = {}
        exec("def %s_%s(%s):\n    pass\n" % (name, tag, ", ".join("a%d" % i for i in range(arity))), ns)
        return ns["%s_%s" % (name, tag)]
    return spec


def file_source_line(name, spec, imported=False):
    if isinstance(spec, (tuple, list)) and len(spec) == 3 and spec[0] == "callable":
        _, tag, arity = spec
        src = "def %s_%s(%s):\n    pass\n" % (name, tag, ", ".join("a%d" % i for i in range(arity)))
        if imported:
            # the usual "from myhooks import post_fork" style: the function lives in another module
            g = G()
            mod = "verif_hooks_%s_%s" % (name, tag)
            path = os.path.join(g["scratch"], mod + ".py")
            if not os.path.exists(path):
                with open(path, "w") as f:
                    f.write(src)
            sys.modules.pop(mod, None)
            return "from %s import %s_%s as %s\n" % (mod, name, tag, name)
        return src + "%s = %s_%s\n" % (name, name, tag)
    if isinstance(spec, (tuple, list)) and len(spec) == 3 and spec[0] == "import":
        return "from %s import %s as %s\n" % (spec[1], spec[2], name)
    return "%s = %r\n" % (name, spec)


def norm(g, name, spec):
    old = sys.stderr
    sys.stderr = io.StringIO()          # validate_ssl_version prints a deprecation warning
    try:
        return g["families"][name]["validator"](materialise(name, spec))
    finally:
        sys.stderr = old


def same(a, b):
    if callable(a) and callable(b) and hasattr(a, "__name__") and hasattr(b, "__name__"):
        return a.__name__ == b.__name__ or a is b
    return a == b and type(a) is type(b)


def load(g, mentions, config_flags=None, then_file=None):
    """mentions: {source: {setting: (spec, cli_tokens)}} -> ("ok", {name: value}) | ("exit", code)"""
    from gunicorn.app.wsgiapp import WSGIApplication
    scratch = g["scratch"]
    conf = os.path.join(scratch, "gunicorn.conf.py")
    old = (os.getcwd(), list(sys.argv), list(sys.path), os.environ.get("GUNICORN_CMD_ARGS"), sys.stderr, sys.stdout)
    dict_src = {k: materialise(k, v[0]) for k, v in mentions.get("dict", {}).items()}

    class App(WSGIApplication):
        def init(self, parser, opts, args):
            super().init(parser, opts, args)
            return dict(dict_src) if dict_src else None

    try:
        os.chdir(scratch)
        if os.path.exists(conf):
            os.unlink(conf)
        if "file" in mentions:
            with open(conf, "w") as f:
                for i, (k, v) in enumerate(sorted(mentions["file"].items())):
                    f.write(file_source_line(k, v[0], imported=(len(k) + i) % 2 == 0))
                # names that are not settings are ignored: other spellings of setting names, helper variables
                f.write("WORKERS = 9\nTimeout = 77\nBIND = ['127.0.0.1:1']\nKeepAlive = 99\nhelper_value = 5\nUSER = 'daemon'\n"
                        "Max_Requests = 11\n")
        argv = []
        for k, v in mentions.get("cli", {}).items():
            argv += v[1]
        envv = []
        for k, v in mentions.get("env", {}).items():
            envv += v[1]
        if config_flags:
            argv += config_flags.get("cli", [])
            envv += config_flags.get("env", [])
        if "env" in mentions or envv:
            os.environ["GUNICORN_CMD_ARGS"] = " ".join(shlex.quote(t) for t in envv)
        else:
            os.environ.pop("GUNICORN_CMD_ARGS", None)
        sys.argv = ["gunicorn"] + argv + ["app:app"]
        sys.stderr = io.StringIO()
        sys.stdout = io.StringIO()
        try:
            app = App("%(prog)s [OPTIONS] [APP_MODULE]", prog="gunicorn")
            if then_file is not None:
                # the configuration file is edited and the application reloads its configuration (what SIGHUP does)
                with open(conf, "w") as f:
                    for i, (k, v) in enumerate(sorted(then_file.items())):
                        f.write(file_source_line(k, v[0], imported=False))
                    f.write("# edited\nhelper_value = 6\n")
                app.reload()
        except SystemExit as e:
            return "exit", (e.code if isinstance(e.code, int) else 1)
        res = {k: v.get() for k, v in app.cfg.settings.items()}
        # the one derived value the settings documentation itself defines: sync with threads > 1 runs the threaded worker
        # (only read for sync/gthread: resolving an async class would monkey-patch this process)
        if res.get("worker_class") in SYNCISH + ("gthread",):
            res["__worker_class_resolved__"] = app.cfg.worker_class.__name__
        return "ok", res
    finally:
        sys.stderr, sys.stdout = old[4], old[5]
        os.chdir(old[0])
        sys.argv[:] = old[1]
        sys.path[:] = old[2]
        sys.modules.pop("__config__", None)
        if old[3] is None:
            os.environ.pop("GUNICORN_CMD_ARGS", None)
        else:
            os.environ["GUNICORN_CMD_ARGS"] = old[3]
        if os.path.exists(conf):
            os.unlink(conf)


# ------------------------------------------------------------------ case construction

def usable_sources(g, name):
    return [s for s in SOURCES if s in ("file", "dict") or g["families"][name]["cli"]]


def extra_cases(tier, seed, shard, nshards):
    g = G()
    n = 0
    for name in sorted(g["families"]):
        f = g["families"][name]
        srcs = usable_sources(g, name)
        nv = len(f["vals"])
        for r in range(1, len(srcs) + 1):
            for subset in itertools.combinations(srcs, r):
                for i, j in itertools.permutations(range(nv), 2) if r > 1 else [(i, i) for i in range(nv)]:
                    n += 1
                    if n % nshards != shard:
                        continue
                    # winner gets value i, everybody below alternates j, i, j ...
                    idx = {}
                    for rank, s in enumerate(subset):
                        idx[s] = i if rank % 2 == 0 else j
                    yield {"kind": "single", "setting": name, "values": idx}
        for bi in range(len(f["bad"])):
            for s in srcs:
                n += 1
                if n % nshards != shard:
                    continue
                yield {"kind": "invalid", "setting": name, "bad": bi, "source": s, "above": None}
                higher = [x for x in srcs if SOURCES.index(x) < SOURCES.index(s)]
                if higher:
                    yield {"kind": "invalid", "setting": name, "bad": bi, "source": s, "above": higher[0]}
    # reload: the file mentions the setting, is edited (other value, or the mention removed), and the configuration is loaded again
    for name in sorted(g["families"]):
        if name in ("spew", "default_proc_name", "config"):
            continue            # Application.reload() installs the spew trace function in this very process; the application argument sets
                                # default_proc_name (see ASSUMPTIONS)
        f = g["families"][name]
        nv = len(f["vals"])
        for i in range(nv):
            for second in [None] + [j for j in range(nv) if j != i][:2]:
                for with_dict in (False, True):
                    n += 1
                    if n % nshards == shard:
                        yield {"kind": "reload", "setting": name, "first": i, "second": second, "dict": (i + 1) % nv if with_dict else None}
    for which in ("cli-over-env", "env-only", "cli-only"):
        n += 1
        if n % nshards == shard:
            yield {"kind": "configflag", "which": which}


EXHAUSTIVE_NOTE = ("all settings x all source subsets x all ordered value pairs of the family, and all (invalid value x source) "
                   "combinations, are enumerated completely in both tiers")


def strategy(tier):
    names = sorted(n for n in __import__("gunicorn.config", fromlist=["x"]).make_settings() if n != "config")
    one = st.tuples(st.sampled_from(names), st.lists(st.sampled_from(SOURCES), min_size=1, max_size=4, unique=True),
                    st.lists(st.integers(0, 5), min_size=4, max_size=4))
    return st.fixed_dictionaries({"kind": st.just("mix"), "items": st.lists(one, min_size=1, max_size=6, unique_by=lambda t: t[0]).map(
        lambda l: [[a, list(b), list(c)] for a, b, c in l])})


def pick(f, idx, source):
    """value spec + tokens for a source; falls back to a CLI-expressible value for cli/env"""
    vals = f["vals"]
    v = vals[idx % len(vals)]
    if source in ("cli", "env") and v[1] is None:
        for w in vals:
            if w[1] is not None:
                return w
        return None
    return v


def run_case(case):
    g = G()
    fam = g["families"]
    vio = []
    classes = ["kind:" + case["kind"]]

    def V(clause, sig, observed=None, expected=None):
        vio.append(Violation(clause, "C16/" + sig, observed={"detail": observed, "case": case}, expected=expected))

    if case["kind"] == "configflag":
        scratch = g["scratch"]
        c1, c2 = os.path.join(scratch, "one.conf.py"), os.path.join(scratch, "two.conf.py")
        open(c1, "w").write("workers = 3\n")
        open(c2, "w").write("workers = 5\nthreads = 4\n")
        flags = {"cli-over-env": {"cli": ["-c", c1], "env": ["-c", c2]}, "env-only": {"env": ["--config", c2]},
                 "cli-only": {"cli": ["--config", c1]}}[case["which"]]
        kind, res = load(g, {}, flags)
        want = {"cli-over-env": (3, 1), "env-only": (5, 4), "cli-only": (3, 1)}[case["which"]]
        if kind != "ok" or (res["workers"], res["threads"]) != want:
            V("config-file-choice", "config-flag-" + case["which"], {"result": kind, "workers_threads": None if kind != "ok" else
                                                                      (res["workers"], res["threads"])}, want)
        return Outcome(vio, True, classes, sample=case)

    if case["kind"] == "reload":
        name = case["setting"]
        f = fam[name]
        first = pick(f, case["first"], "file")
        mentions = {"file": {name: first}}
        if case["dict"] is not None:
            mentions["dict"] = {name: pick(f, case["dict"], "dict")}
        then = {} if case["second"] is None else {name: pick(f, case["second"], "file")}
        kind, res = load(g, mentions, then_file=then)
        if kind != "ok":
            V("valid-config-loads", "valid-configuration-rejected-at-reload", {"exit": res, "mentions": _brief(mentions)}, "loads")
            return Outcome(vio, True, classes, sample=case)
        if then:
            want = norm(g, name, then[name][0])
            src = "file (edited)"
        elif "dict" in mentions:
            want = norm(g, name, mentions["dict"][name][0])
            src = "dict"
        else:
            want = g["defaults"][name]
            src = "default"
        if not same(res[name], want):
            V("source-never-changes-what-it-does-not-mention", "value-after-reload-differs:%s" % ("mention-removed" if not then else "mention-changed"),
              {"setting": name, "got": repr(res[name]), "first": repr(first[0]), "edited_file": _brief({"file": then})},
              {"want": repr(want), "from": src})
        else:
            for other, dv in g["defaults"].items():
                if other in (name, "default_proc_name", "config"):
                    continue
                if not same(res[other], dv):
                    V("unmentioned-keeps-default", "unmentioned-setting-changed-at-reload", {"setting": other, "got": repr(res[other])}, {"default": repr(dv)})
                    break
        return Outcome(vio, True, classes + ["reload:%s" % ("removed" if not then else "changed")], sample=case)

    if case["kind"] == "invalid":
        name = case["setting"]
        f = fam[name]
        spec, toks = f["bad"][case["bad"]]
        src = case["source"]
        if src in ("cli", "env"):
            if toks is None:
                return Outcome([], False, classes + ["invalid-not-expressible"])
        mentions = {src: {name: (spec, toks)}}
        if case.get("above"):
            good = pick(f, 0, case["above"])
            if good is None:
                return Outcome([], False, classes + ["invalid-not-expressible"])
            mentions[case["above"]] = {name: good}
        kind, res = load(g, mentions)
        if kind != "exit" or res == 0:
            V("invalid-stops-startup", "invalid-value-accepted:%s:%s" % (f["validator"].__name__, src),
              {"setting": name, "value": repr(spec), "result": kind, "effective": repr(res.get(name)) if kind == "ok" else res},
              "SystemExit != 0")
        return Outcome(vio, True, classes + ["validator:" + f["validator"].__name__], sample=case)

    # ---- single / mix: build mentions
    mentions = {}
    items = []
    if case["kind"] == "single":
        items = [(case["setting"], list(case["values"].keys()), case["values"])]
    else:
        for name, srcs, idxs in case["items"]:
            items.append((name, srcs, {s: idxs[SOURCES.index(s)] for s in srcs}))
    expected = {}
    multi = False
    for name, srcs, idx in items:
        f = fam[name]
        usable = [s for s in SOURCES if s in srcs and (s in ("file", "dict") or f["cli"])]
        chosen = {}
        for s in usable:
            v = pick(f, idx[s], s)
            if v is None:
                continue
            chosen[s] = v
            mentions.setdefault(s, {})[name] = v
        if not chosen:
            continue
        winner = [s for s in SOURCES if s in chosen][0]
        expected[name] = (winner, chosen[winner][0])
        norms = set(repr(norm(g, name, v[0])) if not callable(materialise(name, v[0])) else v[0][1] for v in chosen.values())
        if len(chosen) >= 2 and len(norms) >= 2:
            multi = True
    kind, res = load(g, mentions)
    if kind != "ok":
        V("valid-config-loads", "valid-configuration-rejected", {"exit": res, "mentions": _brief(mentions)}, "loads")
        return Outcome(vio, multi, classes, sample=_brief(mentions))
    for name, (winner, spec) in expected.items():
        want = norm(g, name, spec)
        got = res[name]
        if not same(got, want):
            losers = [s for s in mentions if name in mentions[s] and s != winner]
            V("most-authoritative-source-wins", "wrong-source-wins:%s-over-%s" % ("?", winner) if not losers else
              "effective-value-differs:winner=%s:mentioned-by=%s" % (winner, "+".join(sorted(losers + [winner]))),
              {"setting": name, "got": repr(got), "mentions": {s: repr(mentions[s][name][0]) for s in mentions if name in mentions[s]}},
              {"want": repr(want), "from": winner})
            break
    if not vio and "__worker_class_resolved__" in res:
        want_cls = "ThreadWorker" if (res["worker_class"] == "gthread" or res["threads"] > 1) else "SyncWorker"
        if res["__worker_class_resolved__"] != want_cls:
            V("effective-after-normalisation", "resolved-worker-class-differs-from-effective-settings",
              {"worker_class": res["worker_class"], "threads": res["threads"], "resolved": res["__worker_class_resolved__"], "mentions": _brief(mentions)},
              want_cls)
    if not vio:
        for name, dv in g["defaults"].items():
            if name in expected or name in ("default_proc_name", "config"):
                continue
            if not same(res[name], dv):
                V("unmentioned-keeps-default", "unmentioned-setting-changed", {"setting": name, "got": repr(res[name]), "mentions": _brief(mentions)},
                  {"default": repr(dv)})
                break
    classes.append("sources:%d" % len(mentions))
    return Outcome(vio, multi, classes, sample=_brief(mentions))


def _brief(mentions):
    return {s: {k: repr(v[0])[:60] for k, v in d.items()} for s, d in mentions.items()}
