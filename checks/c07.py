"""C07 wsgi.input yields exactly the request body, never the next request — model: io.BytesIO."""
import io

from hypothesis import strategies as st

from vlib.common import Outcome, Violation
from vlib import penv
from gunicorn.http import RequestParser

PROPERTY = "C07"
RULE = ("body (pattern x length, newline-dense, lengths biased to 0/1/1023/1024/1025/2048/8191-8193/65535-65537/140000) x framing "
        "(Content-Length | chunked with drawn chunk layout, extensions (also on the last chunk: 000, 0;a=b, 0 ;x), trailers) x program of read/readline/readlines/"
        "iteration calls with sizes in {None,-1,0,1,2,small,1023,1024,1025,8192,10**6} x segmentation x drain-or-not, "
        "followed by a pipelined request (body up to 1500 bytes), under the default and two tightened limit_request_* configs; oracle = call-by-call io.BytesIO, EOF forever, next request parsed with "
        "equal fields and body. non-trivial = program uses >=2 call kinds or stops before EOF; distinct by case hash")
ASSUMPTIONS = [
    "readlines(hint) may honour or ignore the hint (PEP 3333); the model follows whichever the server chose",
    "requests are conforming (accepted) ones; hostile framings are C01's domain",
]
BUDGET = {"quick": (16, 1000), "thorough": (16, 30000)}

SIZES = [None, -1, 0, 1, 2, 3, 7, 64, 1023, 1024, 1025, 2047, 2048, 2049, 8192, 10 ** 6]
LENS = [0, 1, 2, 5, 30, 100, 1022, 1023, 1024, 1025, 1026, 2047, 2048, 2049, 3000, 8191, 8192, 8193, 9000, 20000, 65535, 65536, 65537,
        70000, 140000]
PATS = ["a", "\n", "ab\n", "\r\n", "x" * 17 + "\n", "line\r\n\r\n0\r\n\r\n", "GET / HTTP/1.1\r\n\r\n", "\n\n\nabc",
        "0123456789" * 10 + "\n", "\xff\x00"]

op = st.one_of(
    st.tuples(st.sampled_from(["read", "readline"]), st.sampled_from(SIZES)),
    st.tuples(st.just("readline"), st.integers(1, 40)),
    st.tuples(st.just("read"), st.integers(1, 3000)),
    st.tuples(st.just("iter"), st.none()),
    st.tuples(st.just("readlines"), st.sampled_from([None, -1, 0, 1, 50, 5000])),
)


def strategy(tier):
    return st.fixed_dictionaries({
        "pat": st.sampled_from(PATS),
        "len": st.one_of(st.sampled_from(LENS), st.integers(0, 4000)),
        "framing": st.sampled_from(["cl", "chunked", "chunked"]),
        "chunks": st.lists(st.sampled_from([1, 2, 3, 5, 16, 255, 1023, 1024, 1025, 4096, 100000]), min_size=1, max_size=4),
        "ext": st.sampled_from(["", "", ";a=b", " ;x"]),
        "trailer": st.sampled_from(["", "", "X-T: v\r\n"]),
        # RFC 9112 7.1: last-chunk = 1*"0" [chunk-ext] CRLF
        "last": st.sampled_from(["0", "0", "0", "000", "0;a=b", "0 ;x", "00;q=\"v\""]),
        "program": st.lists(op, min_size=0, max_size=8).map(lambda l: [list(x) for x in l]),
        "segs": st.lists(st.sampled_from([1, 2, 3, 7, 100, 1023, 1024, 1025, 4096, 8192]), min_size=1, max_size=4),
        "drain": st.booleans(),
        "next_body": st.sampled_from(["", "tail", "0\r\n\r\n", "t" * 1500, "GET /x HTTP/1.1\r\n\r\n" * 20]),
        # tightened head limits (the requests built here stay within them): caps derived from them must not count body / pipelined bytes
        "limits": st.sampled_from([None, None, None, {"limit_request_fields": 8, "limit_request_field_size": 126},
                                   {"limit_request_fields": 3, "limit_request_field_size": 40, "limit_request_line": 64}]),
        "version": st.sampled_from(["1.1", "1.1", "1.0"]),
        "method": st.sampled_from(["POST", "POST", "PUT", "GET", "HEAD", "DELETE", "OPTIONS", "PATCH"]),
        "source": st.sampled_from(["iter", "sock"]),
    })


def extra_cases(tier, seed, shard, nshards):
    for i, k in enumerate(["gthread", "gevent", "eventlet"]):
        if (i + seed) % nshards == shard:
            yield {"engine": "R", "kind": k}


EXHAUSTIVE_NOTE = "engine R: one keep-alive connection history (bodies left unread / partly read, then the next request) per keep-alive worker class"


def run_real(case):
    """engine R: a real keep-alive worker, applications that leave the body unread or read a part of it, bodies larger than one block,
    Content-Length and chunked (the chunked tail sent a moment later): the next request on the connection is the one the client sent"""
    import hashlib
    import time
    from vlib import renv, ref_response
    kind = case["kind"]
    srv = renv.Server(kind=kind, workers=1, bind="unix", graceful=2, timeout=30, threads=2 if kind == "gthread" else None, keepalive=5)
    vio = []
    try:
        if not srv.wait_ready():
            return Outcome([], False, ["engine:R", "inconclusive:not-ready"])
        big = b"".join(b"line %05d of the body that stays unread\n" % i for i in range(120))       # ~4.8 kB, request-like lines inside
        big = big[:2000] + b"GET /smuggled HTTP/1.1\r\nHost: x\r\n\r\n" + big[2000:]
        chunked = b"".join(b"%x\r\n%s\r\n" % (len(big[i:i + 1500]), big[i:i + 1500]) for i in range(0, len(big), 1500)) + b"0\r\n\r\n"
        plans = [
            ("unread-content-length", [(b"POST /noread/1 HTTP/1.1\r\nHost: x\r\nContent-Length: %d\r\n\r\n" % len(big) + big, None, "noread path=/noread/1"),
                                       (b"GET /echo/2 HTTP/1.1\r\nHost: x\r\n\r\n", None, "echo method=GET path=/echo/2"),
                                       (b"GET /echo/3 HTTP/1.1\r\nHost: x\r\n\r\n", None, "echo method=GET path=/echo/3")]),
            ("partly-read-content-length", [(b"POST /readsome/10 HTTP/1.1\r\nHost: x\r\nContent-Length: %d\r\n\r\n" % len(big) + big, None, "readsome path=/readsome/10 got=10"),
                                            (b"GET /echo/2 HTTP/1.1\r\nHost: x\r\n\r\n", None, "echo method=GET path=/echo/2")]),
            ("unread-chunked-late-tail", [(b"POST /readsome/1 HTTP/1.1\r\nHost: x\r\nTransfer-Encoding: chunked\r\n\r\n" + chunked[:1700], chunked[1700:], "readsome path=/readsome/1 got=1"),
                                          (b"GET /echo/2 HTTP/1.1\r\nHost: x\r\n\r\n", None, "echo method=GET path=/echo/2")]),
            ("fully-read", [(b"POST /echo/1 HTTP/1.1\r\nHost: x\r\nContent-Length: %d\r\n\r\n" % len(big) + big, None, "echo method=POST path=/echo/1"),
                            (b"GET /echo/2 HTTP/1.1\r\nHost: x\r\n\r\n", None, "echo method=GET path=/echo/2")]),
        ]
        for name, steps in plans:
            c = srv.connect(5.0)
            try:
                for j, (first, later, want) in enumerate(steps):
                    c.sendall(first)
                    data = b""
                    c.settimeout(5.0)
                    r = None
                    sent_later = later is None
                    while True:
                        r = ref_response.parse_response(data, 0, "GET") if data else None
                        if r is not None and r.ok and r.complete:
                            break
                        try:
                            d = c.recv(65536)
                        except OSError:
                            d = b""
                        if not d:
                            break
                        data += d
                    if not sent_later:
                        time.sleep(0.2)
                        try:
                            c.sendall(later)          # the rest of the body arrives after the response
                        except OSError:
                            pass
                    body = r.body.decode("latin-1") if r is not None and r.ok and r.complete else ""
                    if r is None or not r.ok or r.status != 200 or not body.startswith(want):
                        vio.append(Violation("next-request-at-the-right-byte", "C07/real:request-%d-after-%s-not-served-as-sent:%s" % (j + 1, name, kind),
                                             observed={"status": getattr(r, "status", None), "body": body[:120], "raw": data[:200]}, expected=want))
                        break
            finally:
                c.close()
            if vio:
                break
        return Outcome(vio, True, ["engine:R", "kind:" + kind], key="R|" + kind, sample={"case": case})
    finally:
        srv.cleanup()


def build(case):
    pat = case["pat"].encode("latin-1")
    n = case["len"]
    body = (pat * (n // len(pat) + 1))[:n]
    framing = case["framing"]
    ver = case.get("version", "1.1")
    if ver == "1.0":
        framing = "cl"
    if framing == "cl":
        head = b"%s /one HTTP/%s\r\nHost: h\r\nConnection: keep-alive\r\nContent-Length: %d\r\n\r\n" % (
            case.get("method", "POST").encode(), ver.encode(), n)
        enc = body
    else:
        head = b"%s /one HTTP/1.1\r\nHost: h\r\nTransfer-Encoding: chunked\r\n\r\n" % case.get("method", "POST").encode()
        out = []
        i = 0
        k = 0
        sizes = case["chunks"]
        ext = case["ext"].encode()
        while i < n:
            sz = min(sizes[k % len(sizes)], n - i)
            out.append(b"%x%s\r\n" % (sz, ext if k % 2 == 0 else b"") + body[i:i + sz] + b"\r\n")
            i += sz
            k += 1
        out.append(case.get("last", "0").encode() + b"\r\n" + case["trailer"].encode() + b"\r\n")
        enc = b"".join(out)
    nb = case["next_body"].encode("latin-1")
    nxt = b"PUT /next?q=1 HTTP/1.1\r\nHost: h2\r\nX-Marker: m\r\nContent-Length: %d\r\n\r\n" % len(nb) + nb
    stream = head + enc + nxt
    # segmentation: cyclic segment sizes
    cuts = []
    pos = 0
    k = 0
    segs = case["segs"]
    if len(stream) > 30000:
        segs = [x for x in segs if x >= 1023] or [8192]        # keep huge bodies affordable: no byte-wise feeding
    while pos < len(stream) and len(cuts) < 5000:
        pos += segs[k % len(segs)]
        cuts.append(pos)
        k += 1
    return stream, cuts, body, nb


def run_case(case):
    if case.get("engine") == "R":
        return run_real(case)
    stream, cuts, body, nb = build(case)
    cfg = penv.make_cfg(**(case.get("limits") or {}))
    if case.get("source") == "sock":
        # the socket reader path (SocketUnreader: recv() of at most 8192 bytes) instead of the iterator path
        from vlib.wenv import FakeSocket
        src = FakeSocket(penv.segment(stream, cuts), step_budget=10 ** 6)
    else:
        src = penv.Source(penv.segment(stream, cuts))
    parser = RequestParser(cfg, src, ("127.0.0.1", 1234))
    vio = []
    kinds = set()
    try:
        req = next(parser)
    except Exception as e:   # noqa
        return Outcome([Violation("first-request", "C07/first-request-rejected:" + type(e).__name__,
                                  observed=repr(e), expected="accepted")], False, ["rejected"])
    model = io.BytesIO(body)
    inp = req.body
    trace = []
    for name, n in case["program"]:
        kinds.add(name)
        try:
            if name == "read":
                got = inp.read() if n is None and len(trace) % 2 == 0 else inp.read(n)
                exp = model.read(n if n is not None else -1)
            elif name == "readline":
                got = inp.readline() if n is None and len(trace) % 2 == 0 else inp.readline(n)
                exp = model.readline(n if n is not None else -1)
            elif name == "iter":
                try:
                    got = next(inp)
                except StopIteration:
                    got = b""
                exp = model.readline()
            else:
                got = inp.readlines() if n is None else inp.readlines(n)
                p = model.tell()
                exp_hint = model.readlines(n if n is not None else -1)
                model.seek(p)
                exp_all = model.readlines()
                if got == exp_all:
                    exp = exp_all
                elif got == exp_hint:
                    exp = exp_hint
                    model.seek(p + sum(len(x) for x in exp_hint))
                else:
                    exp = exp_all
        except Exception as e:   # noqa
            vio.append(Violation("call-raises", "C07/%s-raises:%s" % (name, type(e).__name__),
                                 observed={"trace": trace, "call": [name, n], "error": repr(e)}, expected="a value"))
            break
        trace.append([name, n, len(got) if not isinstance(got, list) else [len(x) for x in got]])
        if got != exp:
            vio.append(Violation("call-result", "C07/%s-differs-from-bytesio" % name,
                                 observed={"call": [name, n], "got": got if not isinstance(got, list) else got[:5], "trace": trace,
                                           "model_pos": model.tell()},
                                 expected={"want": exp if not isinstance(exp, list) else exp[:5]}))
            break
    stopped_early = model.tell() < len(body)
    if not vio and case["drain"]:
        try:
            rest = inp.read()
            exp = model.read()
            if rest != exp:
                vio.append(Violation("drain", "C07/final-read-differs", observed={"got_len": len(rest), "got_head": rest[:80], "trace": trace},
                                     expected={"len": len(exp), "head": exp[:80]}))
            else:
                for nm, f in (("read", lambda: inp.read(5)), ("read-all", inp.read), ("readline", inp.readline),
                              ("readlines", inp.readlines), ("read-again", lambda: inp.read(1))):
                    g = f()
                    if g not in (b"", []):
                        vio.append(Violation("eof-forever", "C07/data-after-eof:" + nm, observed={"got": g, "trace": trace},
                                             expected="empty"))
                        break
        except Exception as e:   # noqa
            vio.append(Violation("drain", "C07/drain-raises:" + type(e).__name__, observed=repr(e), expected="bytes"))
    if not vio:
        try:
            nxt = next(parser)
            got = (nxt.method, nxt.uri, tuple(nxt.version), [tuple(h) for h in nxt.headers])
            exp = ("PUT", "/next?q=1", (1, 1), [("HOST", "h2"), ("X-MARKER", "m"), ("CONTENT-LENGTH", str(len(nb)))])
            if got != exp:
                vio.append(Violation("next-request", "C07/next-request-fields", observed={"got": got, "trace": trace}, expected=exp))
            else:
                b2 = nxt.body.read()
                if b2 != nb:
                    vio.append(Violation("next-request", "C07/next-request-body", observed=b2, expected=nb))
        except StopIteration:
            if case.get("version", "1.1") == "1.0" or True:
                vio.append(Violation("next-request", "C07/next-request-missing:StopIteration",
                                     observed={"trace": trace}, expected="PUT /next"))
        except Exception as e:   # noqa
            vio.append(Violation("next-request", "C07/next-request-error:" + type(e).__name__,
                                 observed={"error": repr(e), "trace": trace, "consumed": model.tell(), "body_len": len(body)},
                                 expected="PUT /next parsed from the first byte after the body"))
    nontrivial = len(kinds) >= 2 or (stopped_early and not case["drain"])
    classes = ["source:" + case.get("source", "iter"), "framing:" + case["framing"], "drain:%s" % case["drain"], "early-stop:%s" % stopped_early,
               "kinds:%d" % len(kinds), "len>1024:%s" % (len(body) > 1024), "len>8192:%s" % (len(body) > 8192), "len>65536:%s" % (len(body) > 65536)]
    return Outcome(vio, nontrivial, classes,
                   sample={"body_len": len(body), "pat": case["pat"], "framing": case["framing"], "program": case["program"],
                           "segs": case["segs"], "drain": case["drain"], "trace": trace})
