"""Engine R: real gunicorn master + workers from the tree under test, raw-socket clients, /proc, file system."""
import errno
import os
import re
import shutil
import signal
import socket
import subprocess
import sys
import tempfile
import time

from vlib.common import REPO, VERIF
from vlib import ref_response

PY = "/venv/bin/python"
RFILES = os.path.join(VERIF, "vlib", "rfiles")


_port_counter = [0]


def free_port():
    """A port from a range private to this harness process (parallel shards must never race for the same port)."""
    shard = os.environ.get("VERIF_SHARD")
    base = 21000 + int(shard) * 600 if shard is not None else 31000 + (os.getpid() % 40) * 600
    for _ in range(600):
        _port_counter[0] += 1
        p = base + (_port_counter[0] * 7 + os.getpid()) % 600
        s = socket.socket()
        try:
            s.bind(("127.0.0.1", p))
        except OSError:
            continue
        finally:
            s.close()
        return p
    raise RuntimeError("no free port in the private range")


class Server(object):
    def __init__(self, kind="sync", workers=1, bind="tcp", timeout=30, graceful=4, extra=(), conf_lines=(), pidfile=True,
                 env=None, threads=None, keepalive=None, bind_in_conf=False, daemon=False, pre_gid=None,
                 extra_binds=(), systemd=False, app="rapp:app"):
        self.scratch = tempfile.mkdtemp(prefix="verif-r-")
        os.chmod(self.scratch, 0o755)
        self.kind = kind
        if bind == "tcp":
            self.port = free_port()
            self.bind = "127.0.0.1:%d" % self.port
            self.addr = ("127.0.0.1", self.port)
            self.family = socket.AF_INET
        elif bind == "tcp-name":
            # a host name: the configured spelling differs from what getsockname() reports
            self.port = free_port()
            self.bind = "localhost:%d" % self.port
            self.addr = ("127.0.0.1", self.port)
            self.family = socket.AF_INET
        elif bind == "tcp6":
            self.port = free_port()
            self.bind = "[::1]:%d" % self.port
            self.addr = ("::1", self.port)
            self.family = socket.AF_INET6
        else:
            self.sockpath = os.path.join(self.scratch, "g.sock")
            self.bind = "unix:" + self.sockpath
            self.addr = self.sockpath
            self.family = socket.AF_UNIX
        self.pidfile = os.path.join(self.scratch, "g.pid") if pidfile else None
        self.conf = os.path.join(self.scratch, "conf.py")
        self.log = os.path.join(self.scratch, "log.txt")
        self.conf_lines = list(conf_lines)
        if bind_in_conf:
            self.conf_lines.append("bind = %r" % self.bind)
        self.write_conf()
        self.lsock = None
        if systemd:
            # socket activation: the harness owns the listening socket and hands it over as fd 3 (LISTEN_FDS=1)
            self.lsock = socket.socket(self.family, socket.SOCK_STREAM)
            self.lsock.setsockopt(socket.SOL_SOCKET, socket.SO_REUSEADDR, 1)
            self.lsock.bind(self.addr)
            self.lsock.listen(128)
            bind_in_conf = True
            self.conf_lines = [l for l in self.conf_lines if not l.startswith("bind")]
            self.write_conf()
        args = [PY, os.path.join(RFILES, "launcher_systemd.py" if systemd else "launcher.py"), "-k", kind] + ([] if bind_in_conf else ["-b", self.bind]) + ["-t", str(timeout),
                "--graceful-timeout", str(graceful), "-c", self.conf, "--log-level", "debug"]
        if workers is not None:
            args += ["-w", str(workers)]
        if self.pidfile:
            args += ["-p", self.pidfile]
        if threads:
            args += ["--threads", str(threads)]
        if keepalive is not None:
            args += ["--keep-alive", str(keepalive)]
        self.daemon = daemon
        if daemon:
            args += ["-D", "--error-logfile", self.log]
        args += list(extra) + ["rapp:app"]
        self.app_target = app
        e = dict(os.environ)
        e.update({"PYTHONPATH": REPO + os.pathsep + RFILES, "VERIF_SCRATCH": self.scratch, "PYTHONWARNINGS": "ignore",
                  "PYTHONDONTWRITEBYTECODE": "1"})
        e.pop("GUNICORN_CMD_ARGS", None)
        if env:
            e.update(env)
        self.logf = open(self.log, "ab")
        for b in extra_binds:
            args[args.index("rapp:app"):args.index("rapp:app")] = ["-b", b]
        pre = None
        if systemd:
            e["LISTEN_FDS"] = "1"
            lfd = self.lsock.fileno()

            def pre():
                os.dup2(lfd, 3)
                os.set_inheritable(3, True)
        if pre_gid is not None:
            def pre():      # master started as root:<pre_gid> with root's supplementary groups
                os.setgid(pre_gid)
        if self.app_target != "rapp:app":
            args[args.index("rapp:app")] = self.app_target
        self.proc = subprocess.Popen(args, cwd=self.scratch, env=e, stdout=self.logf, stderr=self.logf, stdin=subprocess.DEVNULL,
                                     start_new_session=True, preexec_fn=pre, close_fds=not systemd)
        self.pid = self.proc.pid
        self.sid = self.pid
        self.extra_masters = []
        if daemon:
            # the launcher exits after the double fork; the real master is named by the pid file
            self.proc.wait(timeout=20)
            t0 = time.time()
            self.pid = None
            while time.time() - t0 < 15:
                try:
                    self.pid = int(open(self.pidfile).read().strip())
                    break
                except (OSError, ValueError):
                    time.sleep(0.05)
            st = stat(self.pid) if self.pid else None
            self.sid = st["sid"] if st else -1

    def write_conf(self, lines=None):
        if lines is not None:
            self.conf_lines = list(lines)
        with open(self.conf + ".tmp", "w") as f:
            f.write("\n".join(self.conf_lines) + "\n")
        os.replace(self.conf + ".tmp", self.conf)

    # ---- client side
    def connect(self, timeout=5.0):
        s = socket.socket(self.family, socket.SOCK_STREAM)
        s.settimeout(timeout)
        s.connect(self.addr)
        return s

    def request(self, path="/pid", timeout=8.0, headers="", method="GET", version="1.1", close=True):
        """one request on a fresh connection -> (Resp or None, raw bytes, error string or None)"""
        try:
            s = self.connect(timeout)
        except OSError as e:
            return None, b"", "connect:%s" % errno.errorcode.get(e.errno, str(e))
        try:
            try:
                s.sendall(("%s %s HTTP/%s\r\nHost: x\r\n%s%s\r\n" % (method, path, version, "Connection: close\r\n" if close else "", headers)).encode())
            except OSError as e:
                return None, b"", "send:%s" % errno.errorcode.get(e.errno, str(e))
            data, err = read_all(s, timeout)
        finally:
            s.close()
        r = ref_response.parse_response(data, 0, method) if data else None
        return r, data, err

    def wait_ready(self, limit=25.0, path="/pid"):
        t0 = time.time()
        while time.time() - t0 < limit:
            if self.proc.poll() is not None and not self.daemon:
                return False
            r, data, err = self.request(path, timeout=2.0)
            if r is not None and r.ok and r.status == 200:
                m = re.search(rb"pid=(\d+)", r.body)
                st = stat(int(m.group(1))) if m else None
                # make sure the answer comes from a worker of THIS master (or of a master it re-exec'ed)
                if st and (st["ppid"] == self.pid or (stat(st["ppid"]) or {}).get("sid") == self.sid):
                    return True
            time.sleep(0.1)
        return False

    def gate_open(self, name):
        with open(os.path.join(self.scratch, "gate-" + name), "w") as f:
            f.write("1")

    def started(self, name, limit=8.0):
        p = os.path.join(self.scratch, "started-" + name)
        t0 = time.time()
        while time.time() - t0 < limit:
            if os.path.exists(p):
                return True
            time.sleep(0.02)
        return False

    # ---- process side
    def signal(self, sig, pid=None):
        try:
            os.kill(pid or self.pid, sig)
            return True
        except OSError:
            return False

    def wait_exit(self, limit):
        """-> exit status of the master or None if still running after `limit` seconds"""
        if self.daemon:
            t0 = time.time()
            while time.time() - t0 < limit:
                if not alive(self.pid):
                    return 0
                time.sleep(0.05)
            return None
        try:
            return self.proc.wait(timeout=limit)
        except subprocess.TimeoutExpired:
            return None

    def workers(self, master=None):
        return children(master or self.pid)

    def session_procs(self):
        """live (non-zombie) processes in the master's session, except the master itself when it is our zombie"""
        out = []
        for pid in all_pids():
            st = stat(pid)
            if st and st["sid"] == self.sid and st["state"] != "Z":
                out.append(pid)
        return out

    def logtext(self):
        try:
            with open(self.log, "rb") as f:
                return f.read().decode("latin-1")
        except OSError:
            return ""

    def cleanup(self):
        for pid in self.session_procs():
            try:
                os.kill(pid, signal.SIGKILL)
            except OSError:
                pass
        try:
            if self.sid and self.sid > 1:
                os.killpg(self.sid, signal.SIGKILL)
        except OSError:
            pass
        try:
            self.proc.wait(timeout=5)
        except Exception:      # noqa
            pass
        self.logf.close()
        if self.lsock is not None:
            self.lsock.close()
        shutil.rmtree(self.scratch, True)


def read_all(s, timeout=8.0, until_close=True):
    s.settimeout(timeout)
    data = []
    err = None
    try:
        while True:
            d = s.recv(65536)
            if not d:
                break
            data.append(d)
    except socket.timeout:
        err = "timeout"
    except OSError as e:
        err = errno.errorcode.get(e.errno, str(e))
    return b"".join(data), err


def all_pids():
    return [int(n) for n in os.listdir("/proc") if n.isdigit()]


def stat(pid):
    try:
        with open("/proc/%d/stat" % pid) as f:
            s = f.read()
    except OSError:
        return None
    rp = s.rfind(")")
    f = s[rp + 2:].split()
    return {"state": f[0], "ppid": int(f[1]), "pgrp": int(f[2]), "sid": int(f[3]), "starttime": int(f[19])}


def children(pid):
    out = []
    for p in all_pids():
        st = stat(p)
        if st and st["ppid"] == pid and st["state"] != "Z":
            out.append(p)
    return sorted(out)


def status_ids(pid):
    try:
        with open("/proc/%d/status" % pid) as f:
            txt = f.read()
    except OSError:
        return None
    out = {}
    for line in txt.splitlines():
        if line.startswith(("Uid:", "Gid:")):
            out[line[:3].lower()] = [int(x) for x in line.split()[1:]]
        elif line.startswith("Groups:"):
            out["groups"] = sorted(int(x) for x in line.split()[1:])
    return out


def alive(pid):
    st = stat(pid)
    return bool(st) and st["state"] != "Z"


def connectable(server):
    try:
        s = server.connect(1.0)
        s.close()
        return True
    except OSError:
        return False
