"""Independent strict RFC 9112 / 9110 request framing reader (the C01/C05/C06 oracle).

Written from the RFC text, not from gunicorn's code.  Given the connection byte stream and
an offset it delimits ONE request and reports

  kind = "end"              nothing left at this offset
         "head_incomplete"  the head never terminates in the stream
         "reject"           the head is malformed; `cls` names the class, `listed` says whether
                            it is one of the classes the property statement enumerates
         "tolerated_close"  head readable, framing outside the strict grammar but every
                            conforming reading agrees the connection cannot be reused
                            (Transfer-Encoding without a final `chunked`): the server may
                            answer it but must never read a further request
         "ok"               complete request: body, end offset
         "body_reject"      head fine, body malformed at some point (`cls`); `body` holds the
                            bytes decoded from complete well-formed chunks before that point
         "body_incomplete"  stream ends inside the body; `body` = bytes decodable so far

RFC sentences the choices rest on are quoted next to each rule.
"""

TCHAR = frozenset(b"!#$%&'*+-.^_`|~0123456789ABCDEFGHIJKLMNOPQRSTUVWXYZabcdefghijklmnopqrstuvwxyz")
DIGITS = frozenset(b"0123456789")
HEXDIG = frozenset(b"0123456789abcdefABCDEF")
OWS = b" \t"

KNOWN_CODINGS = ("gzip", "x-gzip", "deflate", "compress", "x-compress", "identity")


class R(object):
    def __init__(self, kind, **kw):
        self.kind = kind
        self.cls = kw.get("cls")
        self.listed = kw.get("listed", False)
        self.body = kw.get("body", b"")
        self.end = kw.get("end")
        self.head_end = kw.get("head_end")
        self.method = kw.get("method")
        self.target = kw.get("target")
        self.version = kw.get("version")
        self.headers = kw.get("headers", [])
        self.trailers = kw.get("trailers", [])
        self.framing = kw.get("framing")
        self.notes = kw.get("notes", [])
        self.in_trailers = kw.get("in_trailers", False)
        self.maybe_incomplete = kw.get("maybe_incomplete", False)

    def __repr__(self):
        return "R(%s cls=%s end=%s framing=%s body=%d)" % (
            self.kind, self.cls, self.end, self.framing, len(self.body or b""))


def is_token(b):
    return len(b) > 0 and all(c in TCHAR for c in b)


def parse_field_line(line):
    """field-line = field-name ":" OWS field-value OWS   (RFC 9112 5)
    returns (name, value) or raises Reject(cls)"""
    if line[:1] in (b" ", b"\t"):
        # RFC 9112 5.2: obs-fold ... A server that receives an obs-fold in a request message
        # that is not within a message/http container MUST either reject the message ... or replace
        raise Reject("obs-fold", True)
    idx = line.find(b":")
    if idx < 0:
        raise Reject("field-without-colon", True)      # not a field-line at all: non-token name
    name = line[:idx]
    if name and name[-1:] in (b" ", b"\t") and is_token(name.rstrip(OWS)):
        # RFC 9112 5.1: No whitespace is allowed between the field name and colon ... A server
        # MUST reject, with 400, any received request message that contains whitespace
        # between a header field name and colon.
        raise Reject("ws-before-colon", True)
    if not is_token(name):
        raise Reject("non-token-name", True)
    value = line[idx + 1:].strip(OWS)
    for c in value:
        # RFC 9110 5.5: Field values containing CR, LF, or NUL characters are invalid and
        # dangerous ... a recipient MUST either reject the message or replace ...
        if c in (0, 10, 13):
            raise Reject("nul-cr-lf-in-value", True)
    return name, value


class Reject(Exception):
    def __init__(self, cls, listed):
        Exception.__init__(self, cls)
        self.cls = cls
        self.listed = listed


def split_list(value):
    """#element list (RFC 9110 5.6.1): elements separated by commas, OWS around them;
    a recipient MUST parse and ignore a reasonable number of empty list elements."""
    return [e.strip(OWS) for e in value.split(b",")]


def parse_request(stream, pos=0, proxy_line_ok=False):
    n = len(stream)
    if pos >= n:
        return R("end")
    notes = []
    # ---- request line: up to the first CRLF
    eol = stream.find(b"\r\n", pos)
    if eol < 0:
        return R("head_incomplete")
    line = stream[pos:eol]
    parts = line.split(b" ")
    # request-line = method SP request-target SP HTTP-version  (RFC 9112 3)
    if len(parts) != 3 or not parts[1]:
        return R("reject", cls="request-line", listed=True)
    method, target, ver = parts
    if not is_token(method):
        return R("reject", cls="request-line-method", listed=True)
    if not (len(ver) == 8 and ver[:5] == b"HTTP/" and ver[5] in DIGITS and ver[6:7] == b"."
            and ver[7] in DIGITS):
        return R("reject", cls="request-line-version", listed=True)
    version = (ver[5] - 48, ver[7] - 48)
    if any(c <= 0x20 or c == 0x7f for c in target):
        notes.append("ctl-in-target")
    # ---- header section: lines up to the empty line
    cur = eol + 2
    headers = []
    reject = None
    while True:
        e = stream.find(b"\r\n", cur)
        if e < 0:
            if reject is not None:
                # the malformation is already in the stream; whether the head "completes"
                # cannot matter to a server that must refuse it
                return R("reject", cls=reject.cls, listed=reject.listed)
            return R("head_incomplete")
        fl = stream[cur:e]
        cur = e + 2
        if not fl:
            break
        try:
            headers.append(parse_field_line(fl))
        except Reject as r:
            if reject is None:
                reject = r
    if reject is not None:
        return R("reject", cls=reject.cls, listed=reject.listed)
    head_end = cur
    base = dict(method=method, target=target, version=version, headers=headers,
                head_end=head_end, notes=notes)

    # ---- framing (RFC 9112 6.3)
    cl_fields = [v for (k, v) in headers if k.lower() == b"content-length"]
    te_fields = [v for (k, v) in headers if k.lower() == b"transfer-encoding"]
    if len(cl_fields) > 1:
        # RFC 9112 6.3 rule 5: multiple Content-Length field lines ... the recipient MUST treat it as
        # an unrecoverable error (the option of accepting identical duplicates is not taken
        # by the property: "repeated ... Content-Length ... are rejected")
        return R("reject", cls="cl-repeated", listed=True, **base)
    cl = None
    if cl_fields:
        v = cl_fields[0]
        if not v or not all(c in DIGITS for c in v):
            return R("reject", cls="cl-not-digits", listed=True, **base)   # Content-Length = 1*DIGIT
        cl = int(v)
    chunked_final = False
    if te_fields:
        codings = []
        for v in te_fields:
            for el in split_list(v):
                if el == b"":
                    continue
                name = el.split(b";", 1)[0].strip(OWS)
                if not is_token(name):
                    return R("reject", cls="te-non-token", listed=True, **base)
                lname = name.lower().decode("latin-1")
                if lname == "chunked":
                    if b";" in el:
                        return R("reject", cls="te-unknown", listed=True, **base)  # chunked takes no parameters
                    codings.append("chunked")
                elif lname in KNOWN_CODINGS:
                    codings.append(lname)
                else:
                    # RFC 9112 6.1: A server that receives a request message with a transfer coding
                    # it does not understand SHOULD respond with 501
                    return R("reject", cls="te-unknown", listed=True, **base)
        if not codings:
            return R("reject", cls="te-empty", listed=True, **base)
        # the obsolete "identity" coding means "no transformation" (RFC 2616 3.6; removed by RFC 7230): a recipient that
        # still knows it treats it as absent - the repository pins this reading (fixture valid/029)
        if any(c != "identity" for c in codings):
            codings = [c for c in codings if c != "identity"]
        else:
            codings = []
            te_fields = []
        if codings and codings.count("chunked") > 1:
            # RFC 9112 6.1: A sender MUST NOT apply the chunked transfer coding more than once
            return R("reject", cls="te-chunked-repeated", listed=True, **base)
        if "chunked" in codings and codings[-1] != "chunked":
            # RFC 9112 6.3 rule 4: ... chunked is not the final encoding, the message body length cannot
            # be determined reliably; the server MUST respond with 400 and then close
            return R("reject", cls="te-chunked-not-last", listed=True, **base)
        if not codings:
            pass
        elif "chunked" in codings:
            if version < (1, 1):
                # RFC 9112 6.1: A server ... that receives an HTTP/1.0 message containing a
                # Transfer-Encoding header field MUST treat the message as if the framing is faulty
                return R("reject", cls="te-chunked-http10", listed=True, **base)
            if cl is not None:
                # RFC 9112 6.3 rule 3 + property statement: Content-Length together with chunked
                return R("reject", cls="cl-and-chunked", listed=True, **base)
            chunked_final = True
        else:
            # final coding is not chunked: RFC says 400 + close.  Tolerated zone (DESIGN C01 Sound ii)
            return R("tolerated_close", framing="te-no-chunked", **base)

    if chunked_final:
        return parse_chunked(stream, head_end, base)
    if cl is not None:
        if head_end + cl > n:
            return R("body_incomplete", body=stream[head_end:], framing="cl", **base)
        return R("ok", body=stream[head_end:head_end + cl], end=head_end + cl, framing="cl", **base)
    return R("ok", body=b"", end=head_end, framing="none", **base)


def parse_chunked(stream, pos, base):
    """chunked-body = *chunk last-chunk trailer-section CRLF   (RFC 9112 7.1)"""
    n = len(stream)
    body = []
    notes = base["notes"]
    while True:
        e = stream.find(b"\r\n", pos)
        if e < 0:
            # the size line is not terminated: the stream simply ends here
            return R("body_incomplete", body=b"".join(body), framing="chunked", **base)
        line = stream[pos:e]
        pos = e + 2
        # chunk-size = 1*HEXDIG ; chunk-ext = *( BWS ";" BWS chunk-ext-name [ BWS "=" BWS chunk-ext-val ] )
        if b";" in line:
            sz, ext = line.split(b";", 1)
            sz = sz.rstrip(OWS)      # BWS before ";" only
            notes.append("chunk-ext")
            if any(c in (10, 13) for c in ext):
                notes.append("chunk-ext-bare-cr-lf")
        else:
            sz = line
        if not sz or any(c not in HEXDIG for c in sz):
            return R("body_reject", cls="chunk-size-not-hex", listed=True, body=b"".join(body),
                     framing="chunked", **base)
        size = int(sz, 16)
        if size == 0:
            break
        if pos + size > n:
            body.append(stream[pos:])
            return R("body_incomplete", body=b"".join(body), framing="chunked", **base)
        data = stream[pos:pos + size]
        pos += size
        term = stream[pos:pos + 2]
        if term != b"\r\n":
            if len(term) < 2 and b"\r\n".startswith(term):
                body.append(data)
                return R("body_incomplete", body=b"".join(body), framing="chunked", **base)
            # the data of this chunk may or may not have been handed over before the defect is seen
            return R("body_reject", cls="chunk-missing-crlf", listed=True, body=b"".join(body) + data,
                     framing="chunked", **base)
        body.append(data)
        pos += 2
    # trailer section: *( field-line CRLF ) CRLF
    trailers = []
    reject = None
    while True:
        e = stream.find(b"\r\n", pos)
        if e < 0:
            # unterminated trailer section: the stream ends inside the message (even if a line
            # seen so far is malformed, nothing after it can be mistaken for a new message)
            return R("body_incomplete", body=b"".join(body), framing="chunked", in_trailers=True, **base)
        fl = stream[pos:e]
        pos = e + 2
        if not fl:
            break
        try:
            trailers.append(parse_field_line(fl))
        except Reject as r:
            if reject is None:
                reject = r
    if reject is not None:
        return R("body_reject", cls="trailer-" + reject.cls, listed=reject.listed, body=b"".join(body),
                 framing="chunked", **base)
    return R("ok", body=b"".join(body), end=pos, framing="chunked", trailers=trailers, **base)
