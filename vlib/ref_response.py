"""Independent strict HTTP/1.x response reader for the bytes a client received (RFC 9112 4, 6.3, 7.1)."""

TCHAR = frozenset(b"!#$%&'*+-.^_`|~0123456789ABCDEFGHIJKLMNOPQRSTUVWXYZabcdefghijklmnopqrstuvwxyz")
HEXDIG = frozenset(b"0123456789abcdefABCDEF")


class Resp(object):
    def __init__(self):
        self.ok = False            # head parsed
        self.errors = []           # grammar / framing errors
        self.version = None
        self.status = None
        self.reason = None
        self.status_line = None
        self.headers = []          # (name bytes, value bytes) in order
        self.head_lines = []       # raw header lines
        self.framing = None        # none | cl | chunked | close
        self.body = b""
        self.complete = False      # body fully delimited within the data
        self.end = None            # offset after the response (None for close-delimited/incomplete)
        self.terminators = 0       # number of last-chunks seen directly after the body (should be 1)

    def header(self, name):
        name = name.lower()
        return [v for (k, v) in self.headers if k.lower() == name]

    def brief(self):
        return {"status_line": self.status_line, "headers": [(k.decode("latin-1"), v.decode("latin-1")) for k, v in self.headers],
                "framing": self.framing, "body_len": len(self.body), "body_head": self.body[:80], "complete": self.complete,
                "errors": self.errors, "end": self.end}


def parse_response(data, pos, method="GET"):
    """Parse one response starting at data[pos:]. Returns Resp or None when pos == len(data)."""
    if pos >= len(data):
        return None
    r = Resp()
    eol = data.find(b"\r\n", pos)
    if eol < 0:
        r.errors.append("status-line-unterminated")
        return r
    line = data[pos:eol]
    r.status_line = line.decode("latin-1")
    # status-line = HTTP-version SP status-code SP [ reason-phrase ]
    if not (len(line) >= 12 and line[:5] == b"HTTP/" and line[5:6].isdigit() and line[6:7] == b"." and line[7:8].isdigit()
            and line[8:9] == b" " and line[9:12].isdigit() and (len(line) == 12 or line[12:13] == b" ")):
        r.errors.append("status-line-grammar")
        return r
    r.version = (line[5] - 48, line[7] - 48)
    r.status = int(line[9:12])
    r.reason = line[13:]
    if any(c in (0, 10, 13) for c in r.reason):
        r.errors.append("status-line-ctl")
    cur = eol + 2
    while True:
        e = data.find(b"\r\n", cur)
        if e < 0:
            r.errors.append("head-unterminated")
            return r
        fl = data[cur:e]
        cur = e + 2
        if not fl:
            break
        r.head_lines.append(fl)
        idx = fl.find(b":")
        if idx <= 0 or not all(c in TCHAR for c in fl[:idx]):
            r.errors.append("bad-field-line:%r" % fl[:60])
            continue
        val = fl[idx + 1:].strip(b" \t")
        if any(c in (0, 10, 13) for c in val):
            r.errors.append("ctl-in-field-value:%r" % fl[:60])
        r.headers.append((fl[:idx], val))
    r.ok = True
    cl = r.header(b"content-length")
    te = r.header(b"transfer-encoding")
    if len(cl) > 1:
        r.errors.append("content-length-repeated")
    if cl and not cl[0].isdigit():
        r.errors.append("content-length-not-digits")
        cl = []
    if te and cl:
        # RFC 9112 6.2: A sender MUST NOT send a Content-Length header field in any message that
        # contains a Transfer-Encoding header field.
        r.errors.append("content-length-with-transfer-encoding")
    if te and r.version < (1, 1):
        r.errors.append("transfer-encoding-to-http10")
    nobody = method == "HEAD" or 100 <= r.status < 200 or r.status in (204, 304)
    if te and (100 <= r.status < 200 or r.status == 204):
        # RFC 9112 6.1: A server MUST NOT send a Transfer-Encoding header field in any response
        # with a status code of 1xx (Informational) or 204 (No Content).
        r.errors.append("transfer-encoding-on-%d" % r.status)
    if nobody:
        r.framing = "none"
        r.complete = True
        r.end = cur
        return r
    if te:
        codings = [x.strip(b" \t").lower() for v in te for x in v.split(b",")]
        if codings[-1:] != [b"chunked"] or codings.count(b"chunked") != 1:
            r.errors.append("transfer-encoding-not-final-chunked:%r" % te)
            r.framing = "close"
            r.body = data[cur:]
            return r
        r.framing = "chunked"
        _chunked(data, cur, r)
        return r
    if cl:
        n = int(cl[0])
        r.framing = "cl"
        r.body = data[cur:cur + n]
        if cur + n <= len(data):
            r.complete = True
            r.end = cur + n
        return r
    r.framing = "close"
    r.body = data[cur:]
    r.complete = True       # delimited by connection close (caller checks that the server closed)
    r.end = len(data)
    return r


def _chunked(data, pos, r):
    body = []
    n = len(data)
    while True:
        e = data.find(b"\r\n", pos)
        if e < 0:
            r.body = b"".join(body)
            return
        line = data[pos:e]
        sz = line.split(b";", 1)[0]
        if not sz or not all(c in HEXDIG for c in sz):
            r.errors.append("chunk-size-grammar:%r" % line[:40])
            r.body = b"".join(body)
            return
        size = int(sz, 16)
        pos = e + 2
        if size == 0:
            break
        if pos + size + 2 > n:
            body.append(data[pos:pos + size])
            r.body = b"".join(body)
            return
        body.append(data[pos:pos + size])
        pos += size
        if data[pos:pos + 2] != b"\r\n":
            r.errors.append("chunk-data-not-followed-by-crlf")
            r.body = b"".join(body)
            return
        pos += 2
    r.body = b"".join(body)
    # trailer section
    while True:
        e = data.find(b"\r\n", pos)
        if e < 0:
            return
        fl = data[pos:e]
        pos = e + 2
        if not fl:
            break
        if b":" not in fl:
            r.errors.append("bad-trailer-line:%r" % fl[:40])
    r.complete = True
    r.end = pos
    r.terminators = 1
    # a second terminating chunk directly after the message is a framing error (it is not a response)
    while data[pos:pos + 5] == b"0\r\n\r\n":
        r.terminators += 1
        pos += 5
