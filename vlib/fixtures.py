"""Load the repository's request fixtures (tests/requests/{valid,invalid}/*.http) as byte strings."""
import glob
import os

from vlib.common import REPO


def load_all():
    out = []
    for sub in ("valid", "invalid"):
        for f in sorted(glob.glob(os.path.join(REPO, "tests", "requests", sub, "*.http"))):
            with open(f, "rb") as h:
                d = h.read()
            d = d.replace(b"\n", b"").replace(b"\\r\\n", b"\r\n")
            d = d.replace(b"\\0", b"\000").replace(b"\\n", b"\n").replace(b"\\t", b"\t")
            out.append((sub + "/" + os.path.basename(f), d))
    return out
