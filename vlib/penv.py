"""Engine P: the real gunicorn RequestParser over an in-memory, segmented byte source."""
from gunicorn.config import Config
from gunicorn.http import RequestParser
from gunicorn.http.errors import NoMoreData


def make_cfg(**kw):
    c = Config()
    for k, v in kw.items():
        c.set(k, v)
    return c


class Source(object):
    """Iterator of segments that knows how many bytes it has handed out."""

    def __init__(self, segments):
        self.segments = list(segments)
        self.i = 0
        self.given = 0

    def __iter__(self):
        return self

    def __next__(self):
        if self.i >= len(self.segments):
            raise StopIteration
        s = self.segments[self.i]
        self.i += 1
        self.given += len(s)
        return s


def segment(stream, cuts):
    """cut positions -> list of non-empty segments"""
    pts = sorted(set(c for c in cuts if 0 < c < len(stream)))
    out = []
    prev = 0
    for c in pts + [len(stream)]:
        if c > prev:
            out.append(stream[prev:c])
        prev = c
    return out


def read_body(body, step=1024, limit=1 << 26):
    """Read a request body to EOF in `step`-sized reads. -> (bytes, error-class-name or None)"""
    got = []
    total = 0
    try:
        while True:
            d = body.read(step)
            if not d:
                return b"".join(got), None
            got.append(d)
            total += len(d)
            if total > limit:
                return b"".join(got), "HARNESS-LIMIT"
    except Exception as e:      # noqa - every exception class is an observation here
        return b"".join(got), type(e).__name__


def observe(stream, cuts=(), cfg=None, peer=("127.0.0.1", 40000), max_requests=8, body_step=1024,
            full=False, consume=None):
    """Iterate the real parser the way a worker does: next(parser), read the whole body, repeat.
    Returns (requests, terminal) where each request is a dict and terminal is
    "end" (StopIteration), "nomoredata", "exc:<Class>", or "max"."""
    cfg = cfg or make_cfg()
    src = Source(segment(stream, cuts))
    parser = RequestParser(cfg, src, peer)
    reqs = []
    terminal = None
    while True:
        if len(reqs) >= max_requests:
            terminal = "max"
            break
        try:
            req = next(parser)
        except StopIteration:
            terminal = "end"
            break
        except NoMoreData:
            terminal = "nomoredata"
            break
        except Exception as e:   # noqa
            terminal = "exc:" + type(e).__name__
            break
        start_after_head = src.given - len(parser.unreader.buf.getvalue())
        if consume is None:
            body, err = read_body(req.body, body_step)
        else:
            # the application reads only `consume` bytes (0 = nothing) and returns
            try:
                body, err = (req.body.read(consume) if consume else b""), None
            except Exception as e:      # noqa
                body, err = b"", type(e).__name__
        rec = {
            "method": req.method, "uri": req.uri, "version": tuple(req.version),
            "headers": [tuple(h) for h in req.headers], "body": body, "body_error": err,
            "trailers": [tuple(h) for h in req.trailers],
            "end": src.given - len(parser.unreader.buf.getvalue()),
            "head_end": start_after_head,
            "must_close": req.should_close(),
        }
        if full:
            rec.update(path=req.path, query=req.query, fragment=req.fragment, scheme=req.scheme,
                       proxy=req.proxy_protocol_info)
        reqs.append(rec)
        if err is not None:
            terminal = "body-exc:" + err
            break
    return reqs, terminal
