"""Hypothesis strategies for WSGI application programs (interpreted by wenv.AppProgram) and request heads."""
from hypothesis import strategies as st

STATUSES = ["200 OK", "200 OK", "200 OK", "201 Created", "202 Accepted", "204 No Content", "304 Not Modified",
            "302 Found", "404 Not Found", "500 Internal Server Error", "206 Partial Content", "200", "299 Custom Reason Phrase"]
CHUNKS = ["", "a", "hello", "x" * 100, "\r\n", "0\r\n\r\n", "Z" * 5000, "HTTP/1.1 200 OK\r\n\r\n", "\xff\x00", "line\n"]


@st.composite
def app_program(draw, failures=True, allow_misbehaving=True):
    status = draw(st.sampled_from(STATUSES))
    code = int(status.split()[0])
    mode = draw(st.sampled_from(["list", "list", "gen", "write", "write+list", "file", "bytesio"]))
    nobody = code in (204, 304)
    chunks = draw(st.lists(st.sampled_from(CHUNKS), min_size=0, max_size=5))
    if nobody and (not allow_misbehaving or draw(st.integers(0, 9)) > 0):
        chunks = []
        if mode in ("file", "bytesio"):
            mode = "list"
    prog = {"status": status, "mode": mode, "chunks": chunks}
    headers = []
    if draw(st.booleans()):
        headers.append(["Content-Type", "text/plain"])
    pre = 0
    if mode in ("file", "bytesio") and draw(st.integers(0, 3)) == 0 and not nobody:
        prog["write_first"] = True
        pre = sum(len(c) for c in chunks)
    if mode == "file":
        prog["file_offset"] = draw(st.sampled_from([0, 0, 1, 4096, 69990, 70000, 12345]))
        prog["file_len"] = draw(st.sampled_from([None, None, 0, 10, 5000])) if not pre else None
        total = max(0, 70000 - prog["file_offset"]) + pre
    elif mode == "bytesio":
        prog["bytesio_len"] = draw(st.sampled_from([0, 1, 100, 5000]))
        prog["file_offset"] = draw(st.sampled_from([0, 0, 1, 50]))
        prog["blksize"] = draw(st.sampled_from([8192, 7, 1024]))
        if draw(st.integers(0, 2)) == 0:
            prog["short_reads"] = draw(st.sampled_from([1, 100, 1000]))
        total = max(0, prog["bytesio_len"] - min(prog["file_offset"] % 6000, prog["bytesio_len"])) + pre
    else:
        total = sum(len(c) for c in chunks)
    clm = draw(st.sampled_from(["none", "none", "exact", "exact", "smaller", "zero", "larger" if allow_misbehaving else "exact"]))
    if mode == "file" and prog["file_len"] is not None:
        clm = "exact"       # a byte-range style response: Content-Length = the range length
        cl = min(prog["file_len"], total)
    elif clm == "exact":
        cl = total
    elif clm == "smaller":
        cl = draw(st.integers(0, total))
    elif clm == "zero":
        cl = 0
    elif clm == "larger":
        cl = total + draw(st.integers(1, 10))
    else:
        cl = None
    if cl is not None:
        headers.insert(draw(st.integers(0, len(headers))), [draw(st.sampled_from(["Content-Length", "content-length", "CONTENT-LENGTH"])), str(cl)])
    if draw(st.integers(0, 5)) == 0:
        headers.append(["X-App", draw(st.sampled_from(["v", "", "a b", "caf\xe9"]))])
    prog["headers"] = headers
    prog["read_input"] = draw(st.sampled_from(["none", "none", "all", "some", "line"]))
    prog["lazy_start"] = mode in ("gen",) and draw(st.booleans())
    prog["closing"] = draw(st.booleans())
    if failures and mode in ("list", "gen", "write", "write+list") and not prog["lazy_start"] and draw(st.integers(0, 11)) == 0:
        # error-handling middleware: tries to replace the response it has started; the replacement is refused by the server
        # (a header it cannot accept), the application catches that and carries on with its original response
        prog["restart"] = {"when": draw(st.sampled_from(["before_write", "after_write"])), "exc_info": True,
                           "status": draw(st.sampled_from(["500 Internal Server Error", "503 Oops"])),
                           "headers": draw(st.sampled_from([[["X-Err", "boom\r\nInjected: 1"]], [["Content-Length", 5]], [["Bad Name", "x"]],
                                                            [["X-Ok", "v"], ["X-Err", "a\nb"]]])),
                           "catch": True}
    if failures and draw(st.integers(0, 5)) == 0:
        prog["fail"] = draw(st.sampled_from(["before_start", "after_start", "mid", "mid", "in_close"]))
        prog["fail_k"] = draw(st.integers(0, 3))
        exc = draw(st.sampled_from([None, None, None, "FileNotFoundError", "PermissionError", "TimeoutError", "OSError:EIO",
                                    "ConnectionResetError", "KeyError", "socket.timeout"]))
        if exc:
            prog["fail_exc"] = exc
        if prog["fail"] == "mid" and mode in ("list", "gen", "write", "write+list") and draw(st.integers(0, 2)) == 0:
            # the head is flushed by an empty first chunk / write(b""), then the application fails: headers sent, zero body bytes
            prog["chunks"] = [""] + list(prog["chunks"])
            prog["fail_k"] = 1
    return prog


@st.composite
def request_head(draw, methods=("GET", "GET", "POST", "HEAD", "PUT", "DELETE", "OPTIONS")):
    method = draw(st.sampled_from(methods))
    version = draw(st.sampled_from(["1.1", "1.1", "1.0"]))
    conn = draw(st.sampled_from([None, None, "close", "keep-alive", "Keep-Alive", "CLOSE", "close, x", "upgrade"]))
    expect = draw(st.sampled_from([None, None, None, "100-continue", "100-Continue"]))
    body = draw(st.sampled_from(["", "", "abc", "k=v&x=y\n", "0\r\n\r\n"])) if method in ("POST", "PUT", "DELETE") else ""
    chunked = bool(body) and version == "1.1" and draw(st.booleans())
    return {"method": method, "version": version, "connection": conn, "expect": expect, "body": body, "chunked": chunked,
            "target": draw(st.sampled_from(["/", "/a?b=c", "/x/y"]))}


def render_request(r, extra_headers=()):
    lines = ["%s %s HTTP/%s" % (r["method"], r.get("target", "/"), r["version"]), "Host: example.com"]
    if r.get("connection"):
        lines.append("Connection: " + r["connection"])
    if r.get("expect"):
        lines.append("Expect: " + r["expect"])
    for k, v in extra_headers:
        lines.append("%s: %s" % (k, v))
    body = r.get("body", "")
    if body:
        if r.get("chunked"):
            lines.append("Transfer-Encoding: chunked")
            body = "%x\r\n%s\r\n0\r\n\r\n" % (len(body), body)
        else:
            lines.append("Content-Length: %d" % len(body))
    return ("\r\n".join(lines) + "\r\n\r\n" + body)


def expected_output(prog):
    """-> (full output bytes the application produces, declared Content-Length or None)"""
    from vlib.wenv import FILE_BYTES
    mode = prog.get("mode", "list")
    first = b"".join(c.encode("latin-1") for c in prog.get("chunks", [])) if prog.get("write_first") else b""
    if mode == "file":
        out = first + FILE_BYTES[prog.get("file_offset", 0):]
    elif mode == "bytesio":
        n = prog.get("bytesio_len", 5000)
        out = first + FILE_BYTES[:n][prog.get("file_offset", 0) % 6000:]
    else:
        out = b"".join(c.encode("latin-1") for c in prog.get("chunks", []))
    cl = None
    for k, v in prog.get("headers", []):
        if k.lower() == "content-length":
            try:
                cl = int(v)
            except ValueError:
                cl = None
    return out, cl
