"""Shared runner: seeds, sharding, evidence, known findings, replays.

Every check module (checks/cNN.py) exposes

    PROPERTY, RULE, ASSUMPTIONS, BUDGET = {"quick": (shards, examples), "thorough": (...)}
    strategy(tier)        -> hypothesis strategy of JSON-able case dicts
    run_case(case)        -> Outcome
    extra_cases(tier, seed) (optional) -> iterable of (label, case) enumerated outside Hypothesis
                                         (exhaustive finite sub-domains); label feeds `exhaustive_parts`

A *case* is plain JSON (bytes are latin-1 strings) so a shrunk failure can be written out
and replayed with `./check CNN --replay file` without Hypothesis.

Exit codes: 0 held, 1 violation (with VIOLATION line), 2 harness error / inconclusive.
"""
import collections
import hashlib
import json
import multiprocessing
import os
import sys
import time
import traceback

VERIF = os.path.dirname(os.path.dirname(os.path.abspath(__file__)))
REPO = os.environ.get("VERIF_REPO", "/repo")


def setup_repo():
    """Put the tree under test first on sys.path and make sure that is what gets imported."""
    if REPO not in sys.path[:1]:
        sys.path.insert(0, REPO)
    os.environ.setdefault("GUNICORN_VERIF", "1")
    import gunicorn
    got = os.path.realpath(gunicorn.__file__)
    if not got.startswith(os.path.realpath(REPO) + os.sep):
        print("HARNESS-ERROR: gunicorn imported from %s, not from %s" % (got, REPO))
        sys.exit(2)


class Violation(object):
    __slots__ = ("clause", "signature", "observed", "expected")

    def __init__(self, clause, signature, observed=None, expected=None):
        self.clause = clause
        self.signature = signature
        self.observed = observed
        self.expected = expected

    def as_dict(self):
        return {"clause": self.clause, "signature": self.signature,
                "observed": _jsonable(self.observed), "expected": _jsonable(self.expected)}


class Outcome(object):
    __slots__ = ("violations", "nontrivial", "classes", "key", "sample", "counts")

    def __init__(self, violations=(), nontrivial=False, classes=(), key=None, sample=None, counts=None):
        self.counts = counts or {}
        self.violations = list(violations)
        self.nontrivial = nontrivial
        self.classes = list(classes)
        self.key = key
        self.sample = sample


class ViolationFound(Exception):
    pass


class Inconclusive(Exception):
    """Raised by a check when a sanity/vacuity guard trips or a wall-clock budget is hit."""


def _jsonable(x, depth=0):
    if isinstance(x, bytes):
        return x.decode("latin-1")
    if isinstance(x, (str, int, float, bool)) or x is None:
        if isinstance(x, str) and len(x) > 4000:
            return x[:2000] + "...[%d chars]..." % len(x) + x[-500:]
        return x
    if isinstance(x, dict):
        return {str(k): _jsonable(v, depth + 1) for k, v in x.items()}
    if isinstance(x, (list, tuple, set, frozenset)):
        return [_jsonable(v, depth + 1) for v in x]
    return repr(x)


def trim(x, limit=600):
    """Shorten long strings inside a case for evidence samples."""
    if isinstance(x, bytes):
        x = x.decode("latin-1")
    if isinstance(x, str):
        return x if len(x) <= limit else x[:limit // 2] + "...[%d]..." % len(x) + x[-limit // 4:]
    if isinstance(x, dict):
        return {k: trim(v, limit) for k, v in x.items()}
    if isinstance(x, (list, tuple)):
        if len(x) > 40:
            return [trim(v, limit) for v in x[:30]] + ["...[%d items]" % len(x)]
        return [trim(v, limit) for v in x]
    return x


def case_hash(case):
    return hashlib.sha1(json.dumps(_jsonable(case), sort_keys=True).encode()).hexdigest()[:16]


# ------------------------------------------------------------------ known findings

def load_findings(prop):
    path = os.path.join(VERIF, "known_findings.json")
    if not os.path.exists(path):
        return []
    with open(path) as f:
        data = json.load(f)
    return [e for e in data.get("findings", []) if e.get("property") == prop]


def open_signatures(prop):
    return {e["signature"]: e for e in load_findings(prop) if e.get("status") == "open"}


# ------------------------------------------------------------------ collector

class Collector(object):
    def __init__(self, prop, known):
        self.prop = prop
        self.known = known            # signature -> entry (open findings only)
        self.evaluations = 0
        self.nontrivial = set()
        self.classes = collections.Counter()
        self.counts = collections.Counter()
        self.samples = []
        self.excluded_known = collections.Counter()
        self.failure = None           # (case, Violation)
        self.max_samples = 6

    def account(self, case, out):
        self.evaluations += 1
        for c in out.classes:
            self.classes[c] += 1
        for c, n in out.counts.items():
            self.counts[c] += n
        if out.nontrivial:
            k = out.key if out.key is not None else case_hash(case)
            if k not in self.nontrivial:
                self.nontrivial.add(k)
                if len(self.samples) < self.max_samples:
                    self.samples.append(trim(out.sample if out.sample is not None else _jsonable(case)))
        bad = None
        for v in out.violations:
            if v.signature in self.known:
                self.excluded_known[v.signature] += 1
            elif bad is None:
                bad = v
        if bad is not None:
            self.failure = (case, bad)
            raise ViolationFound(bad.signature)

    def stats(self):
        return {"evaluations": self.evaluations, "nontrivial": sorted(self.nontrivial),
                "classes": dict(self.classes), "counts": dict(self.counts), "samples": self.samples,
                "excluded_known": dict(self.excluded_known),
                "failure": None if self.failure is None else
                {"case": _jsonable(self.failure[0]), "violation": self.failure[1].as_dict()}}


def _load_check(prop):
    import importlib
    return importlib.import_module("checks." + prop.lower())


def _shard(args):
    prop, tier, seed, shard, n_examples, want_extra = args
    t0 = time.time()
    os.environ["VERIF_SHARD"] = str(shard)
    try:
        setup_repo()
        mod = _load_check(prop)
        col = Collector(prop, open_signatures(prop))
        err = None
        try:
            if want_extra and hasattr(mod, "extra_cases"):
                for case in mod.extra_cases(tier, seed, shard, want_extra):
                    col.account(case, mod.run_case(case))
            if n_examples > 0:
                import hypothesis
                from hypothesis import given, settings, HealthCheck, Phase
                phases = [Phase.generate, Phase.shrink]

                @hypothesis.seed(seed * 1000 + shard)
                @settings(max_examples=n_examples, deadline=None, database=None,
                          suppress_health_check=list(HealthCheck), report_multiple_bugs=False,
                          phases=phases, derandomize=False, print_blob=False)
                @given(mod.strategy(tier))
                def prop_test(case):
                    col.account(case, mod.run_case(case))

                prop_test()
        except ViolationFound:
            pass
        except Inconclusive as e:
            err = "INCONCLUSIVE: %s" % e
        st = col.stats()
        st["error"] = err
        st["wall_s"] = time.time() - t0
        if hasattr(mod, "shard_report"):
            st["report"] = mod.shard_report()
        return st
    except BaseException:
        return {"error": traceback.format_exc(), "evaluations": 0, "nontrivial": [], "classes": {}, "counts": {},
                "samples": [], "excluded_known": {}, "failure": None, "wall_s": time.time() - t0}


def write_replay(prop, case, violation, seed, tier):
    d = os.path.join(VERIF, "out", "replays", prop)
    os.makedirs(d, exist_ok=True)
    body = {"property": prop, "case": _jsonable(case), "seed": seed, "tier": tier}
    if violation is not None:
        body.update(violation)
    path = os.path.join(d, case_hash(case) + ".json")
    with open(path, "w") as f:
        json.dump(body, f, indent=1, sort_keys=True)
    return path


def _replay_one(args):
    prop, path = args
    try:
        setup_repo()
        mod = _load_check(prop)
        with open(path) as f:
            rep = json.load(f)
        out = mod.run_case(rep["case"])
        return path, [v.as_dict() for v in out.violations], None
    except BaseException:
        return path, [], traceback.format_exc()


def run_regressions(prop, mod, pool=None):
    """Replay committed minimal cases: open findings must still show their signature
    (-> KNOWN-FINDING line); 'pass' cases (fixed findings, killed mutants) must pass."""
    d = os.path.join(VERIF, "replays", prop)
    results = {"ran": 0, "known_reproduced": [], "known_gone": [], "violations": [], "errors": []}
    known = open_signatures(prop)
    reproduced = set()
    files = []
    if os.path.isdir(d):
        files = [os.path.join(d, n) for n in sorted(os.listdir(d)) if n.endswith(".json")]
    jobs = [(prop, f) for f in files]
    outs = pool.map(_replay_one, jobs, chunksize=1) if (pool is not None and len(jobs) > 1) else [_replay_one(j) for j in jobs]
    for path, vios, err in outs:
        results["ran"] += 1
        if err:
            results["errors"].append(err)
        for v in vios:
            if v["signature"] in known:
                reproduced.add(v["signature"])
            else:
                results["violations"].append((path, v))
    for sig, e in sorted(known.items()):
        if sig in reproduced:
            results["known_reproduced"].append(e)
        else:
            results["known_gone"].append(e)
    return results


def main_check(prop, argv):
    import argparse
    ap = argparse.ArgumentParser()
    ap.add_argument("--tier", default=os.environ.get("VERIF_TIER", "quick"))
    ap.add_argument("--replay")
    ap.add_argument("--seed", type=int, default=int(os.environ.get("VERIF_SEED", "0") or 0))
    ap.add_argument("--shards", type=int)
    ap.add_argument("--examples", type=int)
    a = ap.parse_args(argv)
    tier = a.tier if a.tier in ("quick", "thorough") else "quick"
    t0 = time.time()
    setup_repo()
    mod = _load_check(prop)

    if a.replay:
        with open(a.replay) as f:
            rep = json.load(f)
        out = mod.run_case(rep["case"])
        known = open_signatures(prop)
        rc = 0
        for v in out.violations:
            tag = "KNOWN-FINDING" if v.signature in known else "VIOLATION"
            print("%s property=%s replay=%s signature=%s" % (tag, prop, a.replay, v.signature)
                  if tag == "VIOLATION" else
                  "KNOWN-FINDING: property=%s %s" % (prop, known[v.signature]["what"]))
            print(json.dumps(v.as_dict(), indent=1)[:3000])
            if tag == "VIOLATION":
                rc = 1
        if not out.violations:
            print("replay passes: no violation")
        return rc

    if hasattr(mod, "main"):
        # checks with their own driver (real-process engine)
        return mod.main(tier, a.seed, a)

    shards, examples = mod.BUDGET[tier]
    if a.shards:
        shards = a.shards
    if a.examples is not None:
        examples = a.examples

    violations = []
    jobs = [(prop, tier, a.seed, s, examples, shards) for s in range(shards)]
    ctx = multiprocessing.get_context("fork")
    if shards == 1:
        reg = run_regressions(prop, mod)
        res = [_shard(jobs[0])]
    else:
        with ctx.Pool(min(shards, os.cpu_count() or 1)) as pool:
            reg = run_regressions(prop, mod, pool)
            res = pool.map(_shard, jobs, chunksize=1)
    for path, v in reg["violations"]:
        violations.append({"replay": path, "violation": v})

    errors = [r["error"] for r in res if r.get("error")] + reg["errors"]
    evaluations = sum(r["evaluations"] for r in res) + reg["ran"]
    nontrivial = set()
    classes = collections.Counter()
    counts = collections.Counter()
    excluded = collections.Counter()
    samples = []
    for r in res:
        nontrivial.update(r["nontrivial"])
        classes.update(r["classes"])
        counts.update(r.get("counts", {}))
        excluded.update(r["excluded_known"])
        for s in r["samples"]:
            if len(samples) < 8:
                samples.append(s)
        if r["failure"]:
            path = write_replay(prop, r["failure"]["case"], r["failure"]["violation"], a.seed, tier)
            violations.append({"replay": path, "violation": r["failure"]["violation"]})

    camp = mod.campaign(tier, a.seed) if hasattr(mod, "campaign") else None
    if camp:
        evaluations += camp.get("evaluations", 0)
        for fl in camp.get("failures", []):
            path = write_replay(fl.get("property", prop), fl["case"], fl["violation"], a.seed, tier)
            violations.append({"replay": path, "violation": fl["violation"]})

    for e in reg["known_reproduced"]:
        print("KNOWN-FINDING: property=%s %s" % (prop, e["what"]))
    for e in reg["known_gone"]:
        print("note: open finding no longer reproduces from its replay: %s" % e["signature"])

    seen = set()
    for v in violations:
        sig = v["violation"]["signature"]
        if sig in seen:
            continue
        seen.add(sig)
        print("VIOLATION property=%s replay=%s" % (prop, v["replay"]))
        print("  clause=%s signature=%s" % (v["violation"]["clause"], sig))
        print("  observed=%s" % json.dumps(v["violation"]["observed"])[:1500])
        print("  expected=%s" % json.dumps(v["violation"]["expected"])[:1500])

    reports = [r.get("report") for r in res if r.get("report")]
    extra_cov = mod.merge_reports(reports) if reports and hasattr(mod, "merge_reports") else {}
    ev = {
        "property_id": prop, "tier": tier, "seed": a.seed, "level": "exploration",
        "coverage": dict({
            "evaluations": evaluations,
            "distinct_nontrivial": len(nontrivial),
            "rule": mod.RULE,
            "samples": samples,
            "classes": dict(sorted(classes.items())),
            "counts": dict(sorted(counts.items())),
            "excluded_known": dict(excluded),
            "regression_replays": reg["ran"],
            "shards": shards, "examples_per_shard": examples,
        }, **extra_cov),
        "assumptions": list(mod.ASSUMPTIONS),
        "wall_s": round(time.time() - t0, 2),
        "violations": len(seen),
    }
    if camp:
        ev["coverage"]["fuzz_campaigns"] = camp.get("info", {})
    if getattr(mod, "EXHAUSTIVE_NOTE", None):
        ev["coverage"]["exhaustive_parts"] = mod.EXHAUSTIVE_NOTE
    write_evidence(prop, ev, alt=bool(a.shards or a.examples is not None))
    print("%s %s seed=%d: %d evaluations, %d distinct non-trivial, %d known-excluded, %d violation(s), %.1fs"
          % (prop, tier, a.seed, evaluations, len(nontrivial), sum(excluded.values()), len(seen),
             time.time() - t0))
    if errors:
        print("HARNESS-ERROR / INCONCLUSIVE in %d shard(s):" % len(errors))
        print(errors[0][-3000:])
        return 1 if seen else 2
    if seen:
        return 1
    if len(nontrivial) < 2:
        print("INCONCLUSIVE: fewer than 2 non-trivial cases were generated")
        return 2
    return 0


def write_evidence(prop, ev, alt=False):
    d = os.path.join(VERIF, "evidence")
    if alt or os.path.realpath(REPO) != "/repo" or os.environ.get("VERIF_NO_EVIDENCE"):
        d = os.path.join(VERIF, "out", "evidence_alt")     # mutant / scratch runs never touch real evidence
    os.makedirs(d, exist_ok=True)
    tmp = os.path.join(d, prop + ".json.tmp")
    with open(tmp, "w") as f:
        json.dump(_jsonable(ev), f, indent=1, sort_keys=True)
    os.replace(tmp, os.path.join(d, prop + ".json"))
