"""Starts gunicorn from the tree under test (PYTHONPATH decides which). Re-exec on USR2 re-runs this file."""
import sys
import warnings

warnings.filterwarnings("ignore")
from gunicorn.app.wsgiapp import run

if __name__ == "__main__":
    sys.exit(run())
