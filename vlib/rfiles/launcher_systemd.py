"""Like launcher.py, but poses as a systemd socket-activated service: fd 3.. are the listening sockets."""
import os
import sys
import warnings

warnings.filterwarnings("ignore")
os.environ["LISTEN_PID"] = str(os.getpid())
os.environ.setdefault("LISTEN_FDS", "1")
from gunicorn.app.wsgiapp import run

if __name__ == "__main__":
    sys.exit(run())
