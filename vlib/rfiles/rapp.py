"""Test application for the real-process engine. Behaviour is chosen by the path; gate files live in $VERIF_SCRATCH."""
import os
import time

SCRATCH = os.environ.get("VERIF_SCRATCH", "/tmp")
if os.environ.get("VERIF_RAPP_FAIL_IMPORT"):
    raise RuntimeError("this application cannot be imported")


def _wait_gate(name, limit=30.0):
    path = os.path.join(SCRATCH, "gate-" + name)
    t0 = time.time()
    while not os.path.exists(path):
        if time.time() - t0 > limit:
            return False
        time.sleep(0.02)
    return True


def _touch(name):
    tmp = os.path.join(SCRATCH, ".tmp-%s-%d" % (name, os.getpid()))
    with open(tmp, "w") as f:
        f.write(str(os.getpid()))
    os.rename(tmp, os.path.join(SCRATCH, name))       # appears complete or not at all


def _ids():
    return "uid=%s gid=%s groups=%s" % (",".join(map(str, os.getresuid())), ",".join(map(str, os.getresgid())),
                                        ",".join(map(str, sorted(os.getgroups()))))


def app(environ, start_response):
    path = environ.get("PATH_INFO", "/")
    parts = [p for p in path.split("/") if p]
    kind = parts[0] if parts else "pid"
    arg = parts[1] if len(parts) > 1 else ""
    info = "pid=%d marker=%s %s script=%s path=%s\n" % (os.getpid(), os.environ.get("VERIF_MARKER", "-"), _ids(),
                                                        environ.get("SCRIPT_NAME", ""), environ.get("PATH_INFO", ""))
    body = info.encode()
    if kind == "gate":
        _touch("started-" + arg)
        _wait_gate(arg)
        body = ("gate-done " + info).encode()
    elif kind == "slow":
        time.sleep(float(arg or "0.3"))
    elif kind == "busy":
        t0 = time.time()
        while time.time() - t0 < float(arg or "1"):
            pass
    elif kind == "stream":
        def gen():
            yield b"first-chunk\n" + b"x" * 200 + b"\n"
            _touch("started-" + arg)
            _wait_gate(arg)
            yield b"second-chunk\n"
            yield ("end " + info).encode()
        start_response("200 OK", [("Content-Type", "text/plain"), ("X-Pid", str(os.getpid()))])
        return gen()
    elif kind == "file":
        # /file/<offset>/<content-length or 'none'>: wsgi.file_wrapper over a real file positioned at <offset>
        f = open(os.path.join(SCRATCH, "data.bin"), "rb")
        f.seek(int(arg or "0"))
        cl = parts[2] if len(parts) > 2 else "none"
        hdrs = [("Content-Type", "application/octet-stream")]
        if cl != "none":
            hdrs.append(("Content-Length", cl))
        start_response("200 OK", hdrs)
        return environ["wsgi.file_wrapper"](f)
    elif kind == "noread":
        body = ("noread path=%s\n" % path).encode()          # the request body is left unread
    elif kind == "readsome":
        got = environ["wsgi.input"].read(int(arg or "10"))
        body = ("readsome path=%s got=%d\n" % (path, len(got))).encode()
    elif kind == "echo":
        import hashlib
        data = environ["wsgi.input"].read()
        body = ("echo method=%s path=%s query=%s len=%d sha1=%s te=%s x=%s\n" % (
            environ["REQUEST_METHOD"], path, environ.get("QUERY_STRING", ""), len(data), hashlib.sha1(data).hexdigest(),
            environ.get("HTTP_TRANSFER_ENCODING", "-"), environ.get("HTTP_X_LONG", "-")[-12:])).encode()
    elif kind == "hang":
        _touch("started-" + arg)
        while True:
            time.sleep(1)
    start_response("200 OK", [("Content-Type", "text/plain"), ("Content-Length", str(len(body))), ("X-Pid", str(os.getpid()))])
    return [body]
