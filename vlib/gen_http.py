"""Hypothesis generators for HTTP/1.x request byte streams.

`conforming_request` builds requests gunicorn is expected to accept; `obfuscated_request`
builds requests with obfuscation points around every framing-relevant token; `stream`
pipelines 1-3 of them, optionally appends junk, optionally mutates bytes.  Everything is
constructed (no filtering).  All results are latin-1 `str` so cases are JSON-able.
"""
from hypothesis import strategies as st

# whitespace-like bytes that str.strip()/int()/isspace() style code treats as blank but HTTP does not
WEIRD_WS = ["\x0b", "\x0c", "\x1c", "\x1d", "\x1e", "\x1f", "\x85", "\xa0", "\x00", "\r", "\n", "\x08", " ", "\t"]

METHODS = ["GET", "POST", "PUT", "DELETE", "PATCH", "OPTIONS", "HEAD"]
ODD_METHODS = ["get", "G3T", "GE T", "", "GET\t", "G#T", "M-SEARCH", "X" * 21, "PO", "GET\x00", "G\xe9T", "$%&'*+-.^_`|~"]
TARGETS = ["/", "/a", "/a/b?x=1&y=2", "*", "http://example.com/p?q", "//dbl/slash", "/%41%2f%00", "/p#frag",
           "/caf\xe9", "/a;b=c"]
ODD_TARGETS = ["", "/a b", "/\n", "/\tx", "/\x00", "\x7f", "?", "#", "http://", "//", "/a\rb", "/" + "a" * 300]
VERSIONS = ["HTTP/1.1", "HTTP/1.1", "HTTP/1.1", "HTTP/1.0"]
ODD_VERSIONS = ["HTTP/1.2", "HTTP/2.0", "HTTP/0.9", "HTTP/0.9", "HTTP/0.0", "HTTP/0.1", "HTTP/1.9", "http/1.1", "HTTP/1.1 ", "HTTP/11", "HTTP/1.10", "HTTP/1.",
                "HTTP/\xb9.1", "", "HTTP/1.1\t"]

SMUGGLED = "GET /smuggled HTTP/1.1\r\nHost: evil\r\n\r\n"

body_alpha = st.sampled_from(["a", "b", "\r", "\n", "\r\n", "0", "5", ";", " ", "\x00", "\xff", "\r\n\r\n",
                              "0\r\n\r\n", "G", "xyz"])


@st.composite
def body_bytes(draw, max_size=60):
    kind = draw(st.integers(0, 11))
    if kind == 0:
        return ""
    if kind in (10, 11) and max_size >= 60:
        # sizes around the parser's internal block sizes (1024-byte body refill, 8192-byte reads)
        n = draw(st.sampled_from([1023, 1024, 1025, 8191, 8192, 8193, 20000]))
        pat = draw(st.sampled_from(["a", "ab\r\n", "0\r\n\r\n", "x" * 99 + "\n"]))
        return (pat * (n // len(pat) + 1))[:n]
    if kind == 1:
        return SMUGGLED
    if kind == 2:
        return "0\r\n\r\n" + SMUGGLED
    parts = draw(st.lists(body_alpha, min_size=0, max_size=max_size // 3))
    return "".join(parts)[:max_size]


def hexsize(draw, n, odd):
    s = "%x" % n
    if not odd:
        return draw(st.sampled_from([s, s.upper(), "0" + s, "000" + s]))
    v = draw(st.integers(0, 17))
    if v > 13:
        return ["0x" + s, "0X" + s.upper(), "0x0" + s, "0x" + s][v - 14]       # what int(x, 16) would also accept
    return [
        "0x" + s, "+" + s, "-" + s, s + " ", " " + s, s + "\t", "\t" + s, s + draw(st.sampled_from(WEIRD_WS)),
        draw(st.sampled_from(WEIRD_WS)) + s, s + "g", "", s + "_0", "%d" % n if n > 9 else s + "\x00",
        s.replace("a", "\xaa") if "a" in s else "\xb2" + s,
    ][v]


@st.composite
def chunked_body(draw, data, odd):
    """Encode `data` (latin-1 str) as a chunked body; with `odd`, inject syntax obfuscations."""
    out = []
    i = 0
    n = len(data)
    oddpos = draw(st.integers(0, 2)) if odd else -1
    k = 0
    while i < n:
        sz = draw(st.integers(1, max(1, n - i)))
        piece = data[i:i + sz]
        i += sz
        o = (k == oddpos)
        k += 1
        odd_size = o and draw(st.booleans())
        line = hexsize(draw, sz, odd_size)
        ext = ""
        if draw(st.integers(0, 60)) == 0:
            ext = ";x=" + "e" * draw(st.sampled_from([1000, 1030, 3000, 8200, 9000]))
        elif draw(st.integers(0, 5)) == 0:
            ext = draw(st.sampled_from([";a=b", " ;a", ";", ';q="x;y"', "\t; a = b", ";a=\n", ";\x00", ";a=b;c=d",
                                        '; q="\r\n"' if o else ";z"]))
        term = "\r\n"
        dataterm = "\r\n"
        if o and not odd_size:          # one deviation per chunk, so that a lenient parser would accept the rest
            v = draw(st.integers(0, 7))
            if v == 0:
                term = "\n"
            elif v == 1:
                dataterm = "\n"
            elif v == 2:
                dataterm = ""
            elif v == 3:
                dataterm = "\r"
            elif v == 4:
                dataterm = "XX"
            elif v == 5:
                piece = piece + "E"
            elif v == 6:
                piece = piece[:-1]
            elif v == 7:
                term = "\r\r\n"
        out.append(line + ext + term + piece + dataterm)
    # last chunk
    last = draw(st.sampled_from(["0", "0", "0", "00", "0000"]))
    lastext = draw(st.sampled_from(["", "", "", ";a=b", " ;x"]))
    lastterm = "\r\n"
    trailer = ""
    tv = draw(st.integers(0, 9))
    if tv == 0:
        trailer = "X-Trailer: v\r\n"
    elif tv == 1:
        trailer = "X-A: 1\r\nX-B: 2\r\n"
    final = "\r\n"
    if odd and k <= oddpos:
        v = draw(st.integers(0, 9))
        if v == 0:
            last = hexsize(draw, 0, True)
        elif v == 1:
            lastterm = "\n"
        elif v == 2:
            final = "\n"
        elif v == 3:
            final = ""
        elif v == 4:
            trailer = "Bad Trailer: x\r\n"
        elif v == 5:
            trailer = "X-T: a\r\n folded\r\n"
        elif v == 6:
            trailer = "X-T : a\r\n"
        elif v == 7:
            trailer = "X-T: a\x00b\r\n"
        elif v == 8:
            trailer = "Content-Length: 5\r\n"
        elif v == 9:
            last = ""
    out.append(last + lastext + lastterm + trailer + final)
    return "".join(out)


def case_variant(draw, name):
    v = draw(st.integers(0, 3))
    return [name, name.lower(), name.upper(), name.swapcase()][v]


NAME_OBF = ["{n} ", " {n}", "{n}\t", "{u}", "{n}\x00", "\x0b{n}", "{n}\x0c", "X-{n}", "{n}:", "{n}\r", "{n}\xa0", "\xa0{n}",
            "{h}\n{t}"]


def header_name(draw, name, odd):
    n = case_variant(draw, name)
    if not odd:
        return n
    f = draw(st.sampled_from(NAME_OBF))
    return f.format(n=n, u=n.replace("-", "_"), h=n[:4], t=n[4:])


def cl_value(draw, n, odd):
    s = str(n)
    if not odd:
        return draw(st.sampled_from([s, s, s, "0" + s, "00" + s]))
    v = draw(st.integers(0, 15))
    w = draw(st.sampled_from(WEIRD_WS))
    return ["+" + s, "-" + s, s + w, w + s, "0x" + s, s + "," + s, s + ", " + str(n + 1), "", s + ".0", s + "e0",
            "\xb2" if n == 2 else s + "\xb2", s + ";q=1", '"' + s + '"', "0" * 30 + s, s[:-1] + "\xb9" if s[-1] == "1" else s + "\x00",
            s + " " + s][v]


TE_OK = ["chunked", "Chunked", "CHUNKED", "gzip, chunked", "identity, chunked", "deflate,chunked", "chunked "]
TE_ODD = ["{w}chunked", "chunked{w}", "chunked, gzip", "chunked, chunked", "chunked,chunked", "gzip", "identity",
          "chunked;q=1", "xchunked", "chunked,", ",chunked", '"chunked"', "chunked, identity", "chun ked", "",
          "gzip;chunked", "chunked\r\n\tfolded", "x-custom", "chunked, x-custom", "x-custom, chunked",
          "gzip, {w}chunked", "chunked{w}, gzip", "chunKed\x00", "chunked;", "compress, deflate"]


def te_value(draw, odd):
    if not odd:
        return draw(st.sampled_from(TE_OK))
    f = draw(st.sampled_from(TE_ODD))
    return f.format(w=draw(st.sampled_from(WEIRD_WS)))


@st.composite
def request(draw, obfuscate=True, allow_body=True):
    """-> latin-1 str of one request (head + body).  `obfuscate` enables syntax deviations
    (at most a few per request, so that most of the request stays meaningful)."""
    def odd(p=6):
        return obfuscate and draw(st.integers(0, p)) == 0

    method = draw(st.sampled_from(ODD_METHODS)) if odd(20) else draw(st.sampled_from(METHODS))
    target = draw(st.sampled_from(ODD_TARGETS)) if odd(20) else draw(st.sampled_from(TARGETS))
    version = draw(st.sampled_from(ODD_VERSIONS)) if odd(20) else draw(st.sampled_from(VERSIONS))
    sp1 = draw(st.sampled_from(["  ", "\t", ""])) if odd(30) else " "
    sp2 = draw(st.sampled_from(["  ", "\t", ""])) if odd(30) else " "
    eol = draw(st.sampled_from(["\n", "\r", "\r\r\n", "\n\r"])) if odd(30) else "\r\n"
    lines = [method + sp1 + target + sp2 + version + eol]

    headers = []
    if draw(st.booleans()):
        headers.append(("Host", "example.com"))
    plan = draw(st.integers(0, 13)) if allow_body else 0
    data = draw(body_bytes()) if plan else ""
    body = ""
    # plans: 0 none | 1-3 CL | 4-6 chunked | 7 CL+TE | 8 dup CL | 9 TE twice | 10 CL mismatch | 11 framing header in odd place
    if plan in (1, 2, 3):
        headers.append((header_name(draw, "Content-Length", odd(5)), cl_value(draw, len(data), odd(4))))
        body = data
    elif plan in (4, 5, 6):
        headers.append((header_name(draw, "Transfer-Encoding", odd(5)), te_value(draw, odd(3))))
        body = draw(chunked_body(data, odd(3)))
    elif plan == 7:
        hs = [(header_name(draw, "Content-Length", odd(8)), cl_value(draw, len(data), odd(8))),
              (header_name(draw, "Transfer-Encoding", odd(4)), te_value(draw, odd(3)))]
        if draw(st.booleans()):
            hs.reverse()
        headers.extend(hs)
        body = draw(chunked_body(data, False)) if draw(st.booleans()) else data
    elif plan == 8:
        n2 = len(data) if draw(st.booleans()) else draw(st.integers(0, len(data) + 3))
        headers.append((header_name(draw, "Content-Length", odd(6)), str(len(data))))
        headers.append((header_name(draw, "Content-Length", odd(6)), str(n2)))
        body = data
    elif plan == 9:
        headers.append((header_name(draw, "Transfer-Encoding", odd(8)), te_value(draw, True)))
        headers.append((header_name(draw, "Transfer-Encoding", odd(8)), te_value(draw, draw(st.booleans()))))
        body = draw(chunked_body(data, False))
    elif plan == 10:
        n2 = draw(st.integers(0, len(data) + 5))
        headers.append(("Content-Length", str(n2)))
        body = data
    elif plan in (12, 13):
        # a transfer coding other than chunked, the client insisting on keep-alive, and a body that looks like a request
        te = draw(st.sampled_from(["gzip", "deflate", "compress", "gzip, deflate", "identity", "GZIP", "x-gzip"]))
        headers.append((header_name(draw, "Transfer-Encoding", odd(12)), te))
        if draw(st.booleans()):
            headers.append(("Content-Length", str(len(data))))
        headers.append(("Connection", draw(st.sampled_from(["keep-alive", "Keep-Alive", "keep-alive, x"]))))
        body = data if draw(st.booleans()) else SMUGGLED
    elif plan == 11:
        headers.append(("X-Pad", "Content-Length: 3"))
        headers.append((header_name(draw, draw(st.sampled_from(["Content-Length", "Transfer-Encoding"])), True),
                        draw(st.sampled_from(["3", "chunked"]))))
        body = draw(st.sampled_from(["abc", "3\r\nabc\r\n0\r\n\r\n"]))
    # filler / generic headers with obfuscation points
    for _ in range(draw(st.integers(0, 3))):
        nm = draw(st.sampled_from(["X-A", "Accept", "X_Under", "Connection", "Expect", "X-Long", "Content-Type"]))
        val = draw(st.sampled_from(["v", "close", "keep-alive", "", "a, b", "x" * 40, "100-continue", "caf\xe9",
                                    "tab\there"]))
        if odd(8):
            val = draw(st.sampled_from(["a\x00b", "a\rb", "a\nb", "a\x0bb", "\x85", "a\x7fb", "\x01"]))
        if odd(12):
            nm = header_name(draw, nm, True)
        headers.insert(draw(st.integers(0, len(headers))), (nm, val))
    if draw(st.integers(0, 7)) == 0:
        headers.append(("Connection", draw(st.sampled_from(["close", "keep-alive", "Keep-Alive", "CLOSE"]))))
    for (k, v) in headers:
        colon = draw(st.sampled_from([": ", ":", ":  ", ":\t", " : ", ": \x0b"])) if odd(25) else ": "
        heol = draw(st.sampled_from(["\n", "\r", "\r\r\n", "\r\n ", "\r\n\t"])) if odd(30) else "\r\n"
        lines.append(k + colon + v + heol)
    end = draw(st.sampled_from(["\n", "\r", "", "\r\n\r\n", "\n\n"])) if odd(40) else "\r\n"
    return "".join(lines) + end + body


MUT_BYTES = ["\r", "\n", " ", "\t", "\x00", ":", ";", ",", "0", "1", "a", "\x0b", "\xa0", "\r\n", "chunked", "\x85", "=", '"']


@st.composite
def stream(draw, obfuscate=True, max_requests=3, mutate=True):
    nreq = draw(st.integers(1, max_requests))
    parts = []
    for i in range(nreq):
        if obfuscate and draw(st.integers(0, 7)) == 0:
            parts.append(draw(st.sampled_from(["\r\n", "\n", "\r\n\r\n", " ", "\r"])))    # stray bytes before a request line
        parts.append(draw(request(obfuscate=obfuscate)))
    s = "".join(parts)
    tail = draw(st.integers(0, 9))
    if tail == 0:
        s += draw(st.sampled_from(["junk", "\r\n", "GET", "\x00\x01", "POST / HTTP/1.1\r\nContent-Length: 9\r\n\r\nabc"]))
    elif tail == 1 and len(s) > 1:
        s = s[:draw(st.integers(1, len(s) - 1))]
    if mutate and draw(st.integers(0, 3)) == 0:
        for _ in range(draw(st.integers(1, 3))):
            if not s:
                break
            pos = draw(st.integers(0, len(s) - 1))
            op = draw(st.integers(0, 2))
            m = draw(st.sampled_from(MUT_BYTES))
            if op == 0:
                s = s[:pos] + m + s[pos:]
            elif op == 1:
                s = s[:pos] + s[pos + 1:]
            else:
                s = s[:pos] + m + s[pos + 1:]
    return s


# ----------------------------------------------------------------------------- conforming

@st.composite
def conforming_request(draw, with_body=None, keepalive=True, methods=METHODS, version=None):
    """A request every conforming server accepts. -> dict(raw, method, target, version, headers, body, framing)"""
    method = draw(st.sampled_from(methods))
    target = draw(st.sampled_from(["/", "/a", "/a/b?x=1", "/p%20q", "*" if method == "OPTIONS" else "/z"]))
    ver = version or draw(st.sampled_from(["HTTP/1.1", "HTTP/1.1", "HTTP/1.0"]))
    headers = [("Host", "example.com")]
    has_body = draw(st.booleans()) if with_body is None else with_body
    data = draw(body_bytes()) if has_body else ""
    framing = "none"
    body = ""
    if has_body:
        if ver == "HTTP/1.1" and draw(st.booleans()):
            framing = "chunked"
            headers.append(("Transfer-Encoding", "chunked"))
            body = draw(chunked_body(data, False))
        else:
            framing = "cl"
            headers.append(("Content-Length", str(len(data))))
            body = data
    for _ in range(draw(st.integers(0, 2))):
        headers.append((draw(st.sampled_from(["X-A", "Accept", "X-B", "User-Agent"])),
                        draw(st.sampled_from(["v", "a, b", "", "x" * 30]))))
    if ver == "HTTP/1.0" and keepalive:
        headers.append(("Connection", "keep-alive"))
    raw = "%s %s %s\r\n" % (method, target, ver) + "".join("%s: %s\r\n" % h for h in headers) + "\r\n" + body
    return {"raw": raw, "method": method, "target": target, "version": ver, "headers": headers,
            "body": data, "framing": framing}
