"""Engine K: the real Arbiter.run() against a simulated kernel.

gunicorn.arbiter's module globals os/time/select/signal/sock/systemd/random are replaced (in the
harness process) by objects bound to a `Kernel`: a process table with zombies, a virtual clock,
per-worker heartbeats, and a script of external events.  Asynchronous signals are delivered by
calling the arbiter's own registered Python handlers at fake-syscall boundaries (where CPython
would run them).  Every scheduling decision consumes the next integer of a schedule vector.
"""
import errno
import os
import select as real_select
import signal as real_signal

from gunicorn.config import Config

CURRENT = [None]


class Leave(BaseException):
    """raised from the fake select() to leave Arbiter.run() when the history is over"""


class Proc(object):
    __slots__ = ("pid", "age", "state", "status", "die_in", "mode", "hb", "lag", "born", "term_at", "signals", "worker", "boot_until")

    def __init__(self, pid, age, born):
        self.pid = pid
        self.age = age
        self.state = "alive"       # alive | zombie | gone
        self.status = 0
        self.die_in = None         # boundaries until death (None = not dying)
        self.mode = "healthy"      # healthy | hung | hung-ignore-abrt | ignore-term
        self.hb = born             # frozen heartbeat for hung workers
        self.lag = 0.0
        self.born = born
        self.term_at = None
        self.signals = []          # (time, sig)
        self.worker = None
        self.boot_until = born     # until the child has installed its own handlers, TERM only reaches the inherited arbiter handler


class DummyLog(object):
    def __init__(self, cfg=None):
        self.lines = []

    def _log(self, lvl, msg, *a, **kw):
        try:
            self.lines.append((lvl, msg % a if a else msg))
        except Exception:      # noqa
            self.lines.append((lvl, repr((msg, a))))

    def info(self, m, *a, **k): self._log("info", m, *a)
    def debug(self, m, *a, **k): self._log("debug", m, *a)
    def warning(self, m, *a, **k): self._log("warning", m, *a)
    def error(self, m, *a, **k): self._log("error", m, *a)
    def critical(self, m, *a, **k): self._log("critical", m, *a)
    def exception(self, m, *a, **k): self._log("exception", m, *a)
    def log(self, lvl, m, *a, **k): self._log(str(lvl), m, *a)
    def reopen_files(self): pass
    def close_on_exec(self): pass
    def access(self, *a, **k): pass


class FakeTmp(object):
    def __init__(self, kernel, worker):
        self.kernel = kernel
        self.worker = worker
        self.closed = False

    def last_update(self):
        if self.closed:
            # like the real WorkerTmp: os.fstat(closed_file.fileno())
            raise ValueError("I/O operation on closed file")
        return self.kernel.heartbeat_of(self.worker)

    def notify(self):
        pass

    def close(self):
        self.closed = True

    def fileno(self):
        return -1


class FakeWorker(object):
    def __init__(self, age, ppid, sockets, app, timeout, cfg, log):
        self.age = age
        self.pid = "[booting]"
        self.ppid = ppid
        self.sockets = sockets
        self.app = app
        self.timeout = timeout
        self.cfg = cfg
        self.log = log
        self.booted = False
        self.aborted = False
        self.kernel = CURRENT[0]
        self.tmp = FakeTmp(self.kernel, self)
        self.kernel.workers_created.append(self)


class FakeListener(object):
    def __str__(self):
        return "fake://listener"

    def close(self):
        pass

    def fileno(self):
        return -1


class FakeApp(object):
    def __init__(self, kernel, **settings):
        self.kernel = kernel
        self.settings = dict(settings)
        self.cfg = None
        self.load()

    def load(self):
        c = Config()
        c.set("worker_class", FakeWorker)
        c.set("logger_class", DummyLog)
        for k, v in self.settings.items():
            c.set(k, v)
        self.cfg = c

    def reload(self):
        self.settings.update(self.kernel.next_reload_settings or {})
        self.load()

    def wsgi(self):
        return None


class Kernel(object):
    MASTER = 1000

    def __init__(self, sched, events, quiesce_steps):
        self.sched = list(sched)
        self.si = 0
        self.events = list(events)
        self.ei = 0
        self.quiesce_steps = quiesce_steps
        self.quiesced = 0
        self.clock = 100.0
        self.procs = {}
        self.next_pid = 2000
        self.handlers = {}
        self.kill_log = []            # (time, pid, sig, context, tracked snapshot)
        self.workers_created = []
        self.fork_count = 0
        self.fast_death = None        # status for the next forked child, dies inside fork()
        self.next_reload_settings = None
        self.arbiter = None
        self.in_handler = False
        self.trace = []
        self.boundaries = 0
        self.context = "run"
        self.applied_events = []
        self.on_idle = None
        self.max_boundaries = 200000

    # ---- decisions
    def draw(self, n):
        if self.si < len(self.sched):
            v = self.sched[self.si] % n
            self.si += 1
            return v
        return 0

    # ---- heartbeats
    def heartbeat_of(self, worker):
        p = None
        for q in self.procs.values():
            if q.worker is worker:
                p = q
                break
        if p is None:
            return self.clock          # never forked (cannot happen)
        if p.state != "alive" or p.mode in ("hung", "hung-ignore-abrt"):
            return p.hb
        return self.clock - p.lag

    # ---- process table
    def live(self):
        return [p for p in self.procs.values() if p.state == "alive"]

    def zombies(self):
        return [p for p in self.procs.values() if p.state == "zombie"]

    def die(self, p, status):
        if p.state != "alive":
            return
        p.state = "zombie"
        p.status = status
        p.hb = self.heartbeat_frozen(p)
        self.trace.append(("died", p.pid, status, round(self.clock, 2)))
        self.deliver(real_signal.SIGCHLD)

    def heartbeat_frozen(self, p):
        if p.mode in ("hung", "hung-ignore-abrt"):
            return p.hb
        return self.clock - p.lag

    def deliver(self, sig):
        h = self.handlers.get(sig)
        if h is None or h in (real_signal.SIG_DFL, real_signal.SIG_IGN):
            return
        if self.in_handler:
            # CPython does not nest Python-level handlers of pending signals inside a handler in
            # a way the arbiter could observe differently; run it right after
            self.pending_after = getattr(self, "pending_after", []) + [sig]
            return
        self.in_handler = True
        try:
            h(sig, None)
        finally:
            self.in_handler = False
        while getattr(self, "pending_after", None):
            s = self.pending_after.pop(0)
            self.deliver(s)

    def boundary(self, name):
        """a fake system call boundary: dying children may die here (and SIGCHLD is delivered)"""
        self.boundaries += 1
        if self.boundaries > self.max_boundaries:
            raise Leave("boundary budget")
        if self.in_handler:
            return
        for p in list(self.procs.values()):
            if p.state == "alive" and p.die_in is not None:
                if p.die_in <= 0 or self.draw(3) == 0:
                    self.die(p, p.status)
                else:
                    p.die_in -= 1

    # ---- syscalls
    def fork(self):
        self.boundary("fork")
        self.fork_count += 1
        if getattr(self, "pid_wrap", None) is not None and self.fork_count == self.pid_wrap + 1:
            self.next_pid = 300          # the kernel's pid counter wraps: later children get smaller pids than earlier ones
        pid = self.next_pid
        self.next_pid += 1
        w = self.workers_created[-1] if self.workers_created else None
        p = Proc(pid, w.age if w is not None else -1, self.clock)
        p.worker = w
        if w is not None and w.timeout:
            # a healthy worker's heartbeat lags by at most the wait bound the arbiter gave it
            p.lag = (self.draw(5) / 4.0) * float(w.timeout)
        p.boot_until = self.clock + [0.0, 0.0, 0.0, 0.3, 1.5, 2.5][self.draw(6)]
        self.procs[pid] = p
        self.trace.append(("fork", pid, round(self.clock, 2)))
        if self.fast_death is not None:
            st, self.fast_death = self.fast_death, None
            self.die(p, st)            # SIGCHLD handled before fork() returns to the arbiter's code
        return pid

    def kill(self, pid, sig):
        p = self.procs.get(pid)
        tracked = sorted((w.age, q) for q, w in self.arbiter.WORKERS.items()) if self.arbiter else []
        if self.context.startswith("manage#"):
            tracked = list(getattr(self, "manage_snap", tracked))      # what manage_workers saw when it started
        self.kill_log.append({"t": self.clock, "pid": pid, "sig": int(sig), "ctx": self.context, "tracked": tracked,
                              "age": p.age if p else None, "mode": p.mode if p else None,
                              "hb_age": (self.clock - self.heartbeat_frozen(p)) if p and p.state == "alive" else None,
                              "lag": p.lag if p else None, "wtimeout": p.worker.timeout if p and p.worker else None,
                              "born": p.born if p else None, "last_reload": getattr(self, "last_reload", None),
                              "old_generation": pid in getattr(self, "pre_reload_pids", ()),
                              "master_timeout": getattr(self.arbiter, "timeout", None) if self.arbiter else None})
        self.boundary("kill")
        p = self.procs.get(pid)
        if p is None or p.state == "gone":
            raise OSError(errno.ESRCH, "No such process")
        if p.state == "zombie":
            return                      # signalling a zombie succeeds
        p.signals.append((self.clock, int(sig)))
        if sig == real_signal.SIGKILL:
            p.status = 9
            p.die_in = 0
        elif sig in (real_signal.SIGTERM,):
            if self.clock < p.boot_until:
                self.trace.append(("term-lost-while-booting", pid, round(self.clock, 2)))
            elif p.mode in ("healthy",):
                if p.die_in is None:
                    p.status = 0
                    p.die_in = self.draw(4)
            # hung workers are stuck: TERM is noted by the handler but nothing happens
        elif sig in (real_signal.SIGQUIT, real_signal.SIGINT):
            if p.mode == "healthy":
                p.status = 0
                p.die_in = 0
        elif sig == real_signal.SIGABRT:
            if p.mode != "hung-ignore-abrt":
                p.status = 1 << 8
                p.die_in = self.draw(2)

    def waitpid(self, pid, flags):
        self.boundary("waitpid")
        zs = sorted(self.zombies(), key=lambda p: p.pid)
        if zs:
            z = zs[self.draw(len(zs))]
            z.state = "gone"
            return z.pid, z.status
        if self.live():
            return 0, 0
        raise ChildProcessError(errno.ECHILD, "No child processes")

    def sleep(self, secs):
        self.clock += secs
        self.boundary("sleep")

    def idle(self, pipe_r, timeout):
        """select() in Arbiter.sleep(): external events happen here"""
        self.boundary("select")
        if self.ei < len(self.events):
            ev = self.events[self.ei]
            self.ei += 1
            self.apply_event(ev)
        else:
            # quiescence = no process-table change for quiesce_steps consecutive idle seconds
            if len(self.trace) != getattr(self, "_trace_len", None):
                self._trace_len = len(self.trace)
                self.quiesced = 0
                self.restarts = getattr(self, "restarts", 0) + 1
                if self.restarts > 60:
                    raise Leave("never quiescent")
            self.quiesced += 1
            if self.on_idle:
                self.on_idle(self)
            if self.quiesced > self.quiesce_steps:
                raise Leave("history over")
        r, _, _ = real_select.select([pipe_r], [], [], 0)
        if not r:
            self.clock += timeout
        return r, [], []

    def apply_event(self, ev):
        kind = ev[0]
        live = sorted(self.live(), key=lambda p: p.age)
        self.applied_events.append(list(ev) + [round(self.clock, 2)])
        if kind == "exit":
            if live:
                p = live[ev[1] % len(live)]
                self.die(p, ev[2])
        elif kind == "sig":
            for s in ev[1]:
                self.deliver(getattr(real_signal, s))
        elif kind == "hup":
            self.last_reload = self.clock
            self.pre_reload_pids = set(p.pid for p in live)
            self.next_reload_settings = {"workers": ev[1]}
            if len(ev) > 2 and isinstance(ev[2], int) and ev[2] > 0:
                self.next_reload_settings["timeout"] = ev[2]
            self.deliver(real_signal.SIGHUP)
        elif kind == "fastdeath":
            self.fast_death = ev[1]
        elif kind == "hang":
            healthy = [p for p in live if p.mode == "healthy" and p.die_in is None]
            if healthy:
                p = healthy[ev[1] % len(healthy)]
                p.hb = self.clock - p.lag
                p.mode = ev[2]
                self.trace.append(("hang", p.pid, ev[2], round(self.clock, 2)))
        elif kind == "coalesced":
            # a non-worker child of the master (started by a hook) and a worker die together: one SIGCHLD for both
            hp = Proc(self.next_pid, -1, self.clock)
            self.next_pid += 1
            hp.state = "zombie"
            hp.status = ev[2]
            hp.mode = "helper"
            self.procs[hp.pid] = hp
            self.trace.append(("helper-died", hp.pid, round(self.clock, 2)))
            if live:
                p = live[ev[1] % len(live)]
                p.state = "zombie"
                p.status = ev[2]
                p.hb = self.heartbeat_frozen(p)
                self.trace.append(("died", p.pid, ev[2], round(self.clock, 2)))
            self.deliver(real_signal.SIGCHLD)
        elif kind == "msig":
            # the master itself is told to stop
            self.trace.append(("master-signal", ev[1], round(self.clock, 2)))
            self.stop_signal_at = self.clock
            self.live_at_stop = [p.pid for p in live]
            self.deliver(getattr(real_signal, ev[1]))
        elif kind == "exit_soon":
            # a worker is on its way out by itself (max_requests reached, crash in progress): it dies at one of the arbiter's next
            # system-call boundaries
            if live:
                p = live[ev[1] % len(live)]
                if p.die_in is None:
                    p.status = ev[2]
                    p.die_in = 1 + self.draw(3)
        elif kind == "bootfail":
            # nothing can boot any more (broken application / hook): every live worker exits with the boot-error status, one after
            # the other, at the arbiter's next system-call boundaries - including those of an already running halt()
            for p in live:
                if p.die_in is None:
                    p.status = ev[1]
                    p.die_in = self.draw(3)
            if live:
                self.die(live[0], ev[1])
        elif kind == "tick":
            pass


# ---------------------------------------------------------------- module proxies

class FakeOS(object):
    def __init__(self, k):
        self._k = k

    def __getattr__(self, name):
        return getattr(os, name)

    def getpid(self):
        return Kernel.MASTER

    def getppid(self):
        return 1

    def fork(self):
        return self._k.fork()

    def kill(self, pid, sig):
        return self._k.kill(pid, sig)

    def waitpid(self, pid, flags):
        return self._k.waitpid(pid, flags)

    def execvpe(self, *a):
        raise RuntimeError("exec is not simulated")


class FakeTime(object):
    def __init__(self, k):
        self._k = k

    def time(self):
        return self._k.clock

    def monotonic(self):
        return self._k.clock

    def sleep(self, s):
        self._k.sleep(s)


class FakeSelect(object):
    error = OSError

    def __init__(self, k):
        self._k = k

    def select(self, r, w, x, timeout=None):
        return self._k.idle(r[0], timeout or 0)


class FakeSignal(object):
    def __init__(self, k):
        self._k = k

    def __getattr__(self, name):
        return getattr(real_signal, name)

    def signal(self, sig, handler):
        old = self._k.handlers.get(sig, real_signal.SIG_DFL)
        self._k.handlers[sig] = handler
        return old


class FakeSock(object):
    def __init__(self, k):
        self._k = k
        self.closed = []

    def create_sockets(self, conf, log, fds=None):
        return [FakeListener()]

    def close_sockets(self, listeners, unlink=True):
        self.closed.append((len(listeners), unlink))


class FakeSystemd(object):
    SD_LISTEN_FDS_START = 3

    def listen_fds(self, unset_environment=True):
        return 0

    def sd_notify(self, state, logger, unset_environment=False):
        pass


class FakeRandom(object):
    def random(self):
        return 0.5


def run_arbiter(kernel, settings):
    """Run the real Arbiter.run() on the simulated kernel until the history is over.
    -> dict(exit=None|code, error=None|repr, arbiter=...)"""
    import gunicorn.arbiter as A
    saved = {n: getattr(A, n) for n in ("os", "time", "select", "signal", "sock", "systemd", "random")}
    CURRENT[0] = kernel
    A.os, A.time, A.select, A.signal = FakeOS(kernel), FakeTime(kernel), FakeSelect(kernel), FakeSignal(kernel)
    A.sock, A.systemd, A.random = FakeSock(kernel), FakeSystemd(), FakeRandom()
    env_keys = {k: os.environ.get(k) for k in ("SERVER_SOFTWARE", "GUNICORN_PID", "GUNICORN_FD")}
    out = {"exit": None, "error": None, "left": None}
    arb = None
    try:
        os.environ.pop("GUNICORN_PID", None)
        app = FakeApp(kernel, **settings)
        arb = A.Arbiter(app)
        arb.WORKERS = {}
        arb.SIG_QUEUE = []
        arb.LISTENERS = []
        arb.PIPE = []
        kernel.arbiter = arb
        orig_manage = arb.manage_workers
        orig_stop = arb.stop
        orig_murder = arb.murder_workers

        def manage():
            old = kernel.context
            kernel.context = "manage#%d" % kernel.boundaries
            kernel.manage_snap = sorted((w.age, q) for q, w in arb.WORKERS.items())
            try:
                return orig_manage()
            finally:
                kernel.context = old

        def stop(*a, **kw):
            kernel.context = "stop"
            return orig_stop(*a, **kw)

        def murder():
            old = kernel.context
            kernel.context = "murder"
            try:
                return orig_murder()
            finally:
                kernel.context = old

        arb.manage_workers = manage
        arb.stop = stop
        arb.murder_workers = murder
        try:
            arb.run()
            out["left"] = "returned"
        except Leave as e:
            out["left"] = str(e)
        except SystemExit as e:
            out["exit"] = e.code if isinstance(e.code, int) else 1
        except BaseException as e:      # noqa
            out["error"] = "%s: %s" % (type(e).__name__, e)
    finally:
        for n, v in saved.items():
            setattr(A, n, v)
        CURRENT[0] = None
        if arb is not None:
            for fd in arb.PIPE:
                try:
                    os.close(fd)
                except OSError:
                    pass
        for k, v in env_keys.items():
            if v is None:
                os.environ.pop(k, None)
            else:
                os.environ[k] = v
    out["arbiter"] = arb
    return out
