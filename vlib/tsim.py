"""Engine T: the real ThreadWorker (gthread) main loop on a scripted poller / listener / sockets / executor with virtual time.

Yield points are poller.select() and futures.wait(): at each of them the simulator applies the next scripted
events (client connects, bytes arrive, a queued handler runs to completion, time passes, client disconnects,
stop) and checks the connection-set invariants.  Handlers run synchronously at a yield point, and only when
their connection holds a complete request or EOF (otherwise the pool thread is 'blocked in recv').
"""
import errno
import os
import selectors
import socket
import threading

import gunicorn.workers.gthread as G
from vlib.wenv import Capture, make_cfg, HarnessWedge
from gunicorn import glogging

REQ_KA = b"GET /ka HTTP/1.1\r\nHost: h\r\n\r\n"
REQ_CLOSE = b"GET /close HTTP/1.1\r\nHost: h\r\nConnection: close\r\n\r\n"


class StopSim(BaseException):
    pass


class SimSock(object):
    def __init__(self, sim, cid):
        self.sim = sim
        self.cid = cid
        self.buf = b""
        self.client_closed = False
        self.closed = False
        self.out = []
        self.blocking = True
        self.accepted_at = sim.clock
        self.request_count = 0

    def complete_request_buffered(self):
        return b"\r\n\r\n" in self.buf

    def runnable(self):
        return self.complete_request_buffered() or self.client_closed

    def readable(self):
        return bool(self.buf) or self.client_closed

    def recv(self, n=8192, flags=0):
        if self.closed:
            raise OSError(errno.EBADF, "Bad file descriptor")
        if not self.blocking and self.sim.in_handler and self.cid not in self.sim.flagged:
            # a pool thread reading from a non-blocking socket gets EAGAIN as soon as a request arrives in two pieces
            self.sim.flagged.add(self.cid)
            self.sim.V("served-when-thread-free", "handler-reads-from-non-blocking-socket", {"cid": self.cid, "requests_so_far": self.request_count})
        if self.buf:
            if flags & socket.MSG_PEEK:
                return self.buf[:n]
            d, self.buf = self.buf[:n], self.buf[n:]
            return d
        if self.client_closed:
            return b""
        if not self.blocking:
            raise BlockingIOError(errno.EAGAIN, "Resource temporarily unavailable")
        raise HarnessWedge("handler would block in recv on conn %d" % self.cid)

    def sendall(self, data):
        if self.closed:
            raise OSError(errno.EBADF, "Bad file descriptor")
        if self.client_closed:
            raise OSError(errno.EPIPE, "Broken pipe")
        self.out.append(bytes(data))

    def send(self, data):
        self.sendall(data)
        return len(data)

    def setblocking(self, f):
        self.blocking = bool(f)

    def settimeout(self, t):
        pass

    def gettimeout(self):
        return None if self.blocking else 0.0

    def fileno(self):
        return 1000 + self.cid

    def getpeername(self):
        return ("127.0.0.1", 30000 + self.cid)

    def shutdown(self, how):
        pass

    def close(self):
        if not self.closed:
            self.closed = True
            self.sim.on_close(self)


class SimListener(object):
    def __init__(self, sim):
        self.sim = sim
        self.closed = False

    def accept(self):
        if self.sim.pending_connects <= 0:
            raise BlockingIOError(errno.EAGAIN, "Resource temporarily unavailable")
        self.sim.pending_connects -= 1
        s = self.sim.new_conn()
        return s, s.getpeername()

    def setblocking(self, f):
        pass

    def getsockname(self):
        return ("127.0.0.1", 8000)

    def close(self):
        self.closed = True

    def fileno(self):
        return 999

    def __hash__(self):
        return 999


class SimFuture(object):
    sim = None

    def __init__(self, fn, conn):
        self.fn = fn
        self.conn_arg = conn
        self.state = "pending"
        self._result = None
        self._exc = None
        self.callbacks = []
        self.submitted_iter = None

    def cancelled(self):
        return self.state == "cancelled"

    def done(self):
        return self.state in ("done", "cancelled")

    def result(self, timeout=None):
        if self._exc is not None:
            raise self._exc
        return self._result

    def add_done_callback(self, cb):
        if self.done():
            cb(self)
        else:
            self.callbacks.append(cb)

    def cancel(self):
        if self.state == "pending":
            self.state = "cancelled"
            sim = self.sim
            if sim is not None:
                sim.on_cancel(self)
            for cb in self.callbacks:
                cb(self)
            return True
        return False


class LockProxy(object):
    """wraps the lock the worker created for itself; "threads" are logical (sim.thread is "main" or "pool"): the whole simulation
    runs on one OS thread, so a lock that its logical holder takes again is either re-entrant or a deadlock of the real worker"""

    def __init__(self, sim, inner):
        self.sim = sim
        self.inner = inner
        self.reentrant = hasattr(inner, "_is_owned")
        self.owner = None
        self.depth = 0

    def acquire(self, blocking=True, timeout=-1):
        me = self.sim.thread
        if self.owner == me:
            if not self.reentrant:
                self.sim.V("served-when-thread-free", "worker-deadlocks:lock-taken-again-by-its-holder",
                           {"thread": me, "trace": self.sim.trace[-6:]})
                raise StopSim("the worker deadlocked on its own lock")
            self.depth += 1
            return True
        if self.owner is not None:
            raise HarnessWedge("lock held by the other logical thread at a point where the simulation cannot switch threads")
        self.owner = me
        self.depth = 1
        return True

    def release(self):
        self.depth -= 1
        if self.depth <= 0:
            self.owner = None
            self.depth = 0

    def __enter__(self):
        self.acquire()
        return self

    def __exit__(self, *a):
        self.release()
        return False

    def _is_owned(self):
        return self.owner == self.sim.thread


class SimPool(object):
    def __init__(self, sim):
        self.sim = sim
        self.queue = []
        self.shut = False

    def submit(self, fn, conn):
        f = SimFuture(fn, conn)
        f.sim = self.sim
        f.submitted_iter = self.sim.iteration
        self.queue.append(f)
        self.sim.on_submit(f)
        if self.sim.eager and conn.sock.runnable() and len(self.on_thread()) <= self.sim.threads and f in self.on_thread():
            # a pool thread picks the job up and finishes it before submit() has returned to the loop thread
            self.sim.eager = False
            self.sim.run_future(f, callbacks=False)
        return f

    def shutdown(self, wait=True, cancel_futures=False):
        self.shut = True
        if cancel_futures:
            for f in list(self.queue):
                if f.state == "pending" and f not in self.on_thread():
                    f.cancel()
                    self.queue.remove(f)

    def on_thread(self):
        """the first `threads` unfinished futures occupy the pool threads"""
        return [f for f in self.queue if f.state == "pending"][:self.sim.threads]


class Wait(object):
    def __init__(self, done, not_done):
        self.done = done
        self.not_done = not_done


class SimFutures(object):
    FIRST_COMPLETED = "FIRST_COMPLETED"
    ALL_COMPLETED = "ALL_COMPLETED"

    def __init__(self, sim):
        self.sim = sim

    def wait(self, fs, timeout=None, return_when=None):
        self.sim.yield_point("wait", timeout)
        if not self.sim.worker.alive and return_when is None:
            # the final wait after the loop: pool threads keep running for up to graceful_timeout
            while self.sim.run_one_handler():
                pass
        fs = list(fs)
        return Wait(set(f for f in fs if f.done()), set(f for f in fs if not f.done()))


class SimPoller(object):
    def __init__(self, sim):
        self.sim = sim
        self.map = {}
        self.closed = False

    def register(self, fileobj, events, data=None):
        if fileobj in self.map:
            raise KeyError("already registered")
        if getattr(fileobj, "closed", False):
            raise ValueError("closed socket registered")
        self.map[fileobj] = selectors.SelectorKey(fileobj, fileobj.fileno(), events, data)
        self.sim.on_register(fileobj)
        # A pool thread registering a connection while NOT holding the worker's lock can be overtaken by the loop thread
        # at exactly this point: if the socket is readable the loop reacts before the pool thread's next statement.
        w = self.sim.worker
        if (self.sim.in_callback and isinstance(fileobj, SimSock) and fileobj.readable() and data is not None
                and not w._lock._is_owned()):
            self.sim.trace.append(("loop-overtakes-unlocked-register", fileobj.cid, self.sim.clock))
            prev, self.sim.thread = self.sim.thread, "main"
            try:
                data(fileobj)
            finally:
                self.sim.thread = prev

    def unregister(self, fileobj):
        if fileobj not in self.map:
            raise KeyError("not registered")
        del self.map[fileobj]

    def select(self, timeout=None):
        self.sim.yield_point("select", timeout)
        out = []
        for fo, key in list(self.map.items()):
            if isinstance(fo, SimListener):
                if self.sim.pending_connects > 0:
                    out.append((key, selectors.EVENT_READ))
            elif fo.readable() and not fo.closed:
                out.append((key, selectors.EVENT_READ))
        self.sim.polled = True
        return out

    def close(self):
        self.closed = True


class SimTime(object):
    def __init__(self, sim):
        self.sim = sim

    def time(self):
        return self.sim.clock

    def sleep(self, s):
        self.sim.clock += s


class Sim(object):
    def __init__(self, threads, worker_connections, keepalive, events, drain_iters=12, max_requests=0):
        self.threads = threads
        self.worker_connections = worker_connections
        self.keepalive = keepalive
        self.events = list(events)
        self.ei = 0
        self.clock = 1000.0
        self.pending_connects = 0
        self.conns = []
        self.iteration = 0
        self.violations = []         # (clause, signature, detail)
        self.drain_iters = drain_iters
        self.drained = 0
        self.stopped = False
        self.app_calls = 0
        self.trace = []
        self.last_scan = None
        self.ready_since = {}        # cid -> iteration at which it was readable+complete+registered
        self.idle_deadline = {}      # cid -> deadline set when it went idle keep-alive
        self.polled = False
        self.yields = 0
        self.max_requests = max_requests
        self.keepalive_events = 0
        self.overlap = 0
        self.applied = []
        self.tconn = {}
        self.ready_stats = {}
        self.flagged = set()
        self.settled = 0
        self.in_callback = False
        self.in_handler = False
        self.app_duration = 0
        self.thread = "main"
        self.eager = False
        self.late_data = False
        self.cancelled = []
        self.patient_clients = False
        self.dispatched = set()
        self.cancelled = []
        self.patient_clients = False
        self.dispatched = set()
        self.had_futures = False

    # ---- construction
    def build(self):
        cfg = make_cfg(threads=self.threads, worker_connections=self.worker_connections, keepalive=self.keepalive,
                       graceful_timeout=2, max_requests=self.max_requests)
        self.cfg = cfg
        log = glogging.Logger(cfg)
        log.error_log.handlers[:] = [Capture()]
        log.access_log.handlers[:] = [Capture()]
        self.listener = SimListener(self)
        w = G.ThreadWorker(1, os.getppid(), [self.listener], None, 30, cfg, log)
        w.tmp.close()
        w.notify = self.on_iteration
        # the worker creates its pool, poller and lock itself (ThreadWorker.init_process); only the generic part of init_process
        # (signals, privileges, application loading) is left out
        sim0 = self
        w.get_thread_pool = lambda: SimPool(sim0)
        base_init = G.base.Worker.init_process
        G.base.Worker.init_process = lambda self_: None
        try:
            G.ThreadWorker.init_process(w)
        finally:
            G.base.Worker.init_process = base_init
        try:
            w.poller.close()
        except Exception:      # noqa
            pass
        if not isinstance(w.tpool, SimPool):
            w.tpool = SimPool(self)
        w.poller = SimPoller(self)
        w._lock = LockProxy(self, getattr(w, "_lock", None) or threading.RLock())
        sim = self

        def app(environ, start_response):
            sim.app_calls += 1
            sim.clock += sim.app_duration        # the application takes this long (virtual time)
            sim.app_duration = 0
            start_response("200 OK", [("Content-Length", "2")])
            return [b"ok"]
        w.wsgi = app
        orig = w.murder_keepalived

        def murder():
            sim.last_scan = sim.clock
            return orig()
        w.murder_keepalived = murder
        self.worker = w
        return w

    def new_conn(self):
        s = SimSock(self, len(self.conns))
        self.conns.append(s)
        self.trace.append(("accept", s.cid, self.clock))
        if len([c for c in self.conns if not c.closed]) >= 2:
            self.overlap += 1
        return s

    # ---- hooks
    def on_iteration(self):
        # classify the iteration that just ended for every connection that was waiting with a complete request
        if self.iteration > 0:
            w = self.worker
            for cid in list(self.ready_since):
                st = self.ready_stats.setdefault(cid, {"polled_sock": 0, "polled_parser": 0, "stalled_nofuture": 0, "stalled_busy": 0})
                c = self.conns[cid]
                if self.polled:
                    st["polled_sock" if c.complete_request_buffered() else "polled_parser"] += 1
                elif not self.had_futures:
                    st["stalled_nofuture"] += 1
                else:
                    st["stalled_busy"] += 1
        self.iteration += 1
        self.polled = False
        self.had_futures = bool(self.worker.futures)

    def V(self, clause, sig, detail=None):
        self.violations.append((clause, sig, detail))

    def on_close(self, sock):
        self.trace.append(("close", sock.cid, self.clock))
        pend = [f for f in self.worker.tpool.queue if f.state == "pending" and f.conn_arg.sock is sock]
        if pend and not self.stopped:
            self.V("no-close-while-handling", "connection-closed-while-handler-pending", {"cid": sock.cid})
        dl = self.idle_deadline.pop(sock.cid, None)
        if dl is not None and not sock.client_closed and not self.stopped and sock.cid not in self.flagged:
            # the keep-alive reaper closes a connection on which a complete request is waiting
            if self.parser_has_request(sock.cid) and not sock.buf:
                self.flagged.add(sock.cid)
                self.V("served-when-thread-free", "ready-connection-not-dispatched:request-buffered-in-parser",
                       {"cid": sock.cid, "closed_by": "keep-alive reaper", "deadline": dl, "now": self.clock})
        if dl is not None and not sock.client_closed and not sock.buf:
            # an idle keep-alive connection closed by the reaper: never before its deadline
            if self.clock < dl - 1e-9:
                self.V("keepalive-not-before", "keepalive-connection-closed-early", {"cid": sock.cid, "deadline": dl, "now": self.clock})
            self.keepalive_events += 1

    def on_cancel(self, f):
        sock = f.conn_arg.sock
        self.cancelled.append(sock.cid)
        if (sock.complete_request_buffered() or self.parser_has_request(sock.cid)) and not sock.client_closed:
            self.V("no-close-while-handling", "queued-request-cancelled-at-shutdown", {"cid": sock.cid})

    def parser_has_request(self, cid):
        conn = self.tconn.get(cid)
        if conn is None or conn.parser is None:
            return False
        return b"\r\n\r\n" in conn.parser.unreader.buf.getvalue()

    def on_submit(self, f):
        sock = f.conn_arg.sock
        self.tconn[sock.cid] = f.conn_arg
        self.dispatched.add(sock.cid)
        self.trace.append(("dispatch", sock.cid, self.clock, self.iteration))
        self.ready_since.pop(sock.cid, None)
        self.ready_stats.pop(sock.cid, None)
        self.idle_deadline.pop(sock.cid, None)

    def on_register(self, fo):
        if isinstance(fo, SimSock):
            c = None
            for cc in list(self.worker._keep):
                if cc.sock is fo:
                    c = cc
            if c is not None:
                # model: the keep-alive time runs from the moment the connection goes idle (its response has been sent)
                self.idle_deadline[fo.cid] = self.clock + self.keepalive
                self.keepalive_events += 1

    # ---- scheduling
    def open_conns(self):
        return [c for c in self.conns if not c.closed]

    def run_one_handler(self, pick=0, dur=0):
        pool = self.worker.tpool
        self.app_duration = dur
        cand = [f for f in pool.on_thread() if f.conn_arg.sock.runnable() or f.conn_arg.sock.closed]
        if not cand:
            return False
        self.run_future(cand[pick % len(cand)])
        return True

    def run_future(self, f, callbacks=True):
        """a pool thread runs the job; with callbacks=False the future is left "done" and its callbacks run wherever
        add_done_callback() is called next (i.e. in the loop thread)"""
        pool = self.worker.tpool
        self.in_handler = True
        prev = self.thread
        self.thread = "pool"
        try:
            f._result = f.fn(f.conn_arg)
        except (HarnessWedge, StopSim):
            raise
        except BaseException as e:      # noqa
            f._exc = e
        finally:
            self.in_handler = False
            self.thread = prev
        f.state = "done"
        pool.queue.remove(f)
        self.trace.append(("handled", f.conn_arg.sock.cid, self.clock))
        if self.late_data and not f.conn_arg.sock.closed and not f.conn_arg.sock.client_closed:
            # the client's next request arrives after the handler's last recv() but before the handler finished
            self.late_data = False
            f.conn_arg.sock.buf += REQ_KA
            f.conn_arg.sock.request_count += 1
        if not callbacks:
            self.trace.append(("finished-before-callback-attached", f.conn_arg.sock.cid, self.clock))
            return
        self.in_callback = True
        self.thread = "pool"
        try:
            for cb in f.callbacks:
                cb(f)
        finally:
            self.in_callback = False
            self.thread = prev

    def apply(self, ev):
        kind = ev[0]
        self.applied.append(ev)
        open_ = self.open_conns()
        if kind == "connect":
            self.pending_connects += 1
        elif kind in ("send_ka", "send_close", "send_partial", "send_two"):
            live = [c for c in open_ if not c.client_closed]
            if live:
                c = live[ev[1] % len(live)]
                c.buf += {"send_ka": REQ_KA, "send_close": REQ_CLOSE, "send_partial": REQ_KA[:10], "send_two": REQ_KA + REQ_KA}[kind]
                c.request_count += {"send_partial": 0, "send_two": 2}.get(kind, 1)
        elif kind == "finish_partial":
            for c in open_:
                if c.buf and b"\r\n\r\n" not in c.buf and not c.client_closed:
                    c.buf += REQ_KA[10:] if c.buf.endswith(REQ_KA[:10]) else b"\r\n\r\n"
                    break
        elif kind == "handler":
            self.run_one_handler(ev[1], ev[2] if len(ev) > 2 else 0)
        elif kind == "handler_late_data":
            self.late_data = True
            if not self.run_one_handler(ev[1]):
                self.late_data = False
        elif kind == "eager":
            self.eager = True
        elif kind == "time":
            self.clock += ev[1]
        elif kind == "disconnect":
            live = [c for c in open_ if not c.client_closed]
            if live:
                live[ev[1] % len(live)].client_closed = True
        elif kind == "stop":
            self.worker.alive = False
            self.stopped = True

    def yield_point(self, where, timeout):
        self.yields += 1
        if self.yields > 5000:
            raise StopSim("yield budget")
        w = self.worker
        if self.ei < len(self.events):
            self.apply(self.events[self.ei])
            self.ei += 1
        else:
            # drain: clients finish what they started and leave, handlers complete, time passes
            self.drained += 1
            while self.run_one_handler():
                pass
            if self.drained >= 3 and not self.patient_clients:
                for c in self.open_conns():
                    if c.buf and b"\r\n\r\n" not in c.buf:
                        c.buf = b""
                    c.client_closed = True
            if where == "select" or timeout:
                self.clock += 0.5
            busy = self.pending_connects > 0 or any(f.state == "pending" for f in w.tpool.queue)
            if busy:
                self.settled = 0
            else:
                self.settled += 1
            if (self.settled > self.drain_iters * 2 or self.drained > 600) and not self.stopped:
                self.quiescent_check()
                w.alive = False
                self.stopped = True
        self.check_invariants(where)

    def check_invariants(self, where):
        w = self.worker
        open_ = self.open_conns()
        if len(open_) > self.worker_connections:
            self.V("max-connections", "more-open-connections-than-worker_connections", {"open": len(open_), "max": self.worker_connections})
        if w.nr_conns != len(open_):
            self.V("accounting", "nr_conns-%s-open-connections" % ("below" if w.nr_conns < len(open_) else "above"),
                   {"nr_conns": w.nr_conns, "open": len(open_), "trace": self.trace[-8:]})
        if self.stopped:
            return
        # an idle keep-alive connection is always watched by the poller (else its next request is never seen)
        for conn in list(w._keep):
            if conn.sock not in w.poller.map and not conn.sock.closed and conn.sock.cid not in self.flagged:
                self.flagged.add(conn.sock.cid)
                self.V("served-when-thread-free", "keepalive-connection-not-watched",
                       {"cid": conn.sock.cid, "has_request": conn.sock.complete_request_buffered(), "trace": self.trace[-8:]})
        # keep-alive expiry: an idle connection whose deadline had passed at the last scan must be closed
        for cid, dl in list(self.idle_deadline.items()):
            c = self.conns[cid]
            if not c.closed and self.last_scan is not None and dl <= self.last_scan - 1e-9 and not c.readable():
                self.V("keepalive-expiry", "idle-keepalive-connection-not-closed-after-deadline",
                       {"cid": cid, "deadline": dl, "last_scan": self.last_scan})
        # a connection with a complete request is dispatched within 3 loop iterations while a thread is free
        pool = w.tpool
        busy = len(pool.on_thread())
        for c in open_:
            registered = c in w.poller.map
            in_parser = self.parser_has_request(c.cid)
            if registered and (c.complete_request_buffered() or in_parser):
                self.ready_since.setdefault(c.cid, self.iteration)
                st = self.ready_stats.get(c.cid, {"polled_sock": 0, "polled_parser": 0, "stalled_nofuture": 0, "stalled_busy": 0})
                if busy < self.threads and c.cid not in self.flagged:
                    sig = None
                    if st["polled_sock"] > 3:
                        sig = "polled-but-not-dispatched"
                    elif st["polled_parser"] > 3:
                        sig = "request-buffered-in-parser"
                    elif st["stalled_nofuture"] > 3:
                        sig = "at-capacity-no-future-pending" + self.reserve_tag()
                    if sig:
                        self.flagged.add(c.cid)
                        self.V("served-when-thread-free", "ready-connection-not-dispatched:" + sig,
                               {"cid": c.cid, "iterations": st, "nr_conns": w.nr_conns, "futures": len(w.futures), "threads_busy": busy})
            else:
                self.ready_since.pop(c.cid, None)
                self.ready_stats.pop(c.cid, None)

    def reserve_tag(self):
        """the known stall needs a full connection table; it is a different matter when the table is full because more idle keep-alive
        connections are parked than worker_connections - threads (the slots the worker documents it keeps free for new clients)"""
        parked = len([c for c in self.worker._keep if not c.sock.closed])
        if parked > max(0, self.worker_connections - self.threads):
            return ":more-idle-keep-alive-connections-than-worker_connections-minus-threads"
        return ""

    def quiescent_check(self):
        w = self.worker
        open_ = self.open_conns()
        if open_:
            stuck = w.nr_conns >= self.worker_connections and not w.futures
            self.V("returns-to-zero", "connections-left-open-after-clients-left" + (":at-capacity-no-future-pending" + self.reserve_tag() if stuck else ""),
                   {"open": [c.cid for c in open_], "nr_conns": w.nr_conns, "worker_connections": self.worker_connections})
        elif w.nr_conns != 0:
            self.V("returns-to-zero", "nr_conns-not-zero-at-quiescence", {"nr_conns": w.nr_conns})


def run(sim):
    w = sim.build()
    saved = (G.time, G.futures)
    G.time, G.futures = SimTime(sim), SimFutures(sim)
    err = None
    try:
        w.run()
    except StopSim as e:
        err = "budget:" + str(e)
    except HarnessWedge as e:
        err = "wedge:" + str(e)
    except BaseException as e:      # noqa
        err = "%s: %s" % (type(e).__name__, e)
    finally:
        G.time, G.futures = saved
    return err
