"""Engine W: real worker objects (no fork) serving a scripted fake socket through their real handle().

FakeSocket   scripted client: recv() returns the next scripted segment (EOF when the script is
             exhausted), faults can be injected at the i-th recv / j-th send; everything the
             server sends is recorded; close/shutdown are recorded; a step budget turns a spin
             into HarnessWedge.
make_worker  builds SyncWorker / ThreadWorker / GeventWorker / EventletWorker with a real
             glogging.Logger whose handlers are replaced by capturing ones.
serve        runs one connection through the worker the way its run loop would.
AppProgram   interprets a generated application program (status, headers, body mode, failure
             point, start_response re-calls, wsgi.input reads) and records what it did.
"""
import errno
import io
import logging
import os
import tempfile

from gunicorn.config import Config
from gunicorn import glogging

KINDS = ("sync", "gthread", "gevent", "eventlet")


class HarnessWedge(BaseException):
    pass


class FakeSocket(object):
    def __init__(self, segments, recv_fault=None, send_fault=None, peer=("127.0.0.1", 50000),
                 step_budget=20000, eof=True):
        self.segments = [bytes(s) for s in segments if s]
        self.recv_fault = recv_fault      # (call_index, errno)
        self.send_fault = send_fault      # (call_index, errno)
        self.peer = peer
        self.local = ("127.0.0.1", 8000)  # the accepted connection's own end
        self.out = []                     # list of bytes sent by the server, in order
        self.events = []                  # ("send", n) / ("close",) / ("shutdown",) ...
        self.closed = False
        self.shut = False
        self.recv_calls = 0
        self.send_calls = 0
        self.steps = 0
        self.step_budget = step_budget
        self.blocking = True
        self.timeout = None
        self.eof = eof
        self.reads_after_exhaustion = 0
        self.recv_errors = 0
        self.send_errors = 0
        self.silent_timeouts = False

    # ---- server side API
    def _step(self):
        self.steps += 1
        if self.steps > self.step_budget:
            raise HarnessWedge("socket step budget exhausted")

    def recv(self, n=8192, flags=0):
        self._step()
        if self.closed:
            raise OSError(errno.EBADF, "Bad file descriptor")
        i = self.recv_calls
        self.recv_calls += 1
        if self.recv_fault and i == self.recv_fault[0]:
            if self.recv_fault[1] == "T":
                # the client stays silent and the async workers' keep-alive timer (a *silent* timeout around next(parser)) fires
                # here; the other worker classes have no timer on a handler's read: nothing happens for them
                if self.silent_timeouts:
                    self.recv_errors += 1
                    raise SilentTimeout()
            else:
                self.recv_errors += 1
                raise OSError(self.recv_fault[1], os.strerror(self.recv_fault[1]))
        if not self.segments:
            self.reads_after_exhaustion += 1
            return b""
        s = self.segments[0]
        if len(s) > n:
            self.segments[0] = s[n:]
            return s[:n]
        self.segments.pop(0)
        return s

    def pending(self):
        return bool(self.segments)

    def _send(self, data):
        self._step()
        if self.closed:
            raise OSError(errno.EBADF, "Bad file descriptor")
        i = self.send_calls
        self.send_calls += 1
        if self.send_fault and i >= self.send_fault[0]:
            self.send_errors += 1
            raise OSError(self.send_fault[1], os.strerror(self.send_fault[1]))
        self.out.append(bytes(data))

    def sendall(self, data):
        self._send(data)

    def send(self, data):
        self._send(data)
        return len(data)

    def sendfile(self, file, offset=0, count=None):
        # socket.sendfile semantics: send `count` bytes of `file` starting at `offset`
        self._step()
        if self.closed:
            raise OSError(errno.EBADF, "Bad file descriptor")
        fd = file.fileno()
        data = os.pread(fd, count if count is not None else 1 << 30, offset)
        self._send(data)
        self.events.append(("sendfile", offset, count))
        return len(data)

    def setblocking(self, flag):
        self.blocking = bool(flag)

    def settimeout(self, t):
        self.timeout = t

    def gettimeout(self):
        return self.timeout if self.blocking else 0.0

    def fileno(self):
        return 999

    def getsockname(self):
        return self.local

    def getpeername(self):
        return self.peer

    def shutdown(self, how):
        self.shut = True
        self.events.append(("shutdown",))

    def close(self):
        if not self.closed:
            self.events.append(("close",))
        self.closed = True

    # ---- client side view
    def received(self):
        return b"".join(self.out)


class FakeListener(object):
    def __init__(self, name=("127.0.0.1", 8000)):
        self.name = name

    def getsockname(self):
        return self.name


class Capture(logging.Handler):
    def __init__(self):
        logging.Handler.__init__(self)
        self.records = []

    def emit(self, record):
        try:
            self.records.append(record.getMessage())
        except Exception as e:      # noqa
            self.records.append("<<FORMAT-ERROR %r>>" % (e,))


def make_cfg(**kw):
    c = Config()
    for k, v in kw.items():
        c.set(k, v)
    return c


class SilentTimeout(BaseException):
    """stands for gevent.Timeout(keepalive, False) / eventlet.Timeout(keepalive, False) firing inside the guarded block"""


class Env(object):
    """A worker of one class + its capturing logger."""

    def __init__(self, kind, cfg, app):
        self.kind = kind
        self.cfg = cfg
        self.log = glogging.Logger(cfg)
        self.access = Capture()
        self.error = Capture()
        self.log.access_log.handlers[:] = [self.access]
        self.log.error_log.handlers[:] = [self.error]
        self.log.access_log.setLevel(logging.INFO)
        self.log.error_log.setLevel(logging.DEBUG)
        cls = worker_class(kind)
        self.worker = cls(1, os.getppid(), [], None, 30, cfg, self.log)
        self.worker.tmp.close()
        self.worker.wsgi = app
        self.worker.pid = os.getpid()
        self.listener = FakeListener()
        if kind == "gthread":
            import threading
            self.worker._lock = threading.RLock()
        if kind in ("gevent", "eventlet"):
            import contextlib
            inner = self.worker.timeout_ctx

            @contextlib.contextmanager
            def timeout_ctx():
                with inner():
                    try:
                        yield
                    except SilentTimeout:
                        pass            # a silent timeout ends the guarded block without an exception
            self.worker.timeout_ctx = timeout_ctx

    def serve(self, sock):
        """Serve one connection like the worker's run loop would.
        Returns the exception (of any kind) that escaped handle(), or None."""
        w = self.worker
        if hasattr(sock, "silent_timeouts"):
            sock.silent_timeouts = self.kind in ("gevent", "eventlet")
        try:
            if self.kind == "gthread":
                from gunicorn.workers.gthread import TConn
                conn = TConn(self.cfg, sock, sock.peer, self.listener.getsockname())
                rounds = 0
                while True:
                    rounds += 1
                    conn.init()
                    keepalive, _ = w.handle(conn)
                    if not (keepalive and w.alive):
                        if not keepalive or True:
                            conn.close()            # finish_request(): not kept alive -> close
                        break
                    # kept alive: the main loop waits for readability (or the keep-alive timeout)
                    sock.setblocking(False)
                    if not sock.pending() and sock.reads_after_exhaustion > 0:
                        conn.close()                # client is gone and nothing left: murdered / EOF path
                        break
                    if rounds > 64:
                        conn.close()
                        break
            else:
                w.handle(self.listener, sock, sock.peer)
        except HarnessWedge:
            raise
        except BaseException as e:      # noqa - anything escaping handle() kills a real worker
            return e
        return None


_classes = {}


def worker_class(kind):
    if kind not in _classes:
        if kind == "sync":
            from gunicorn.workers.sync import SyncWorker as C
        elif kind == "gthread":
            from gunicorn.workers.gthread import ThreadWorker as C
        elif kind == "gevent":
            from gunicorn.workers.ggevent import GeventWorker as C
        elif kind == "eventlet":
            import warnings
            with warnings.catch_warnings():
                warnings.simplefilter("ignore")
                from gunicorn.workers.geventlet import EventletWorker as C
        else:
            raise ValueError(kind)
        _classes[kind] = C
    return _classes[kind]


# ----------------------------------------------------------------------------- application programs

_tmpfile = None
_tmpfile_pid = None


def data_file_path():
    """A real file with position-dependent content (for the sendfile path); one per process,
    and every use opens it afresh so that no file offset is shared between cases or processes."""
    global _tmpfile, _tmpfile_pid
    if _tmpfile is None or _tmpfile_pid != os.getpid():
        f = tempfile.NamedTemporaryFile(prefix="verif-w-", suffix=".bin")
        f.write(bytes((i * 7 + i // 251) % 256 for i in range(70000)))
        f.flush()
        _tmpfile = f
        _tmpfile_pid = os.getpid()
    return _tmpfile.name


FILE_BYTES = bytes((i * 7 + i // 251) % 256 for i in range(70000))


class ShortReader(object):
    """a stream (pipe, socket, decompressor ...) whose read(n) legitimately returns fewer than n bytes before EOF"""

    def __init__(self, f, most):
        self.f = f
        self.most = most
        self.n = 0

    def read(self, n=-1):
        self.n += 1
        k = self.most if self.n % 2 else max(1, self.most // 3)
        return self.f.read(k if n is None or n < 0 else min(n, k))

    def close(self):
        self.f.close()


def app_exception(p, msg):
    """the exception a failing application program raises: RuntimeError unless the program names another class
    (OSError subclasses matter: the workers treat some OSErrors from handle_request() as socket trouble)"""
    kind = p.get("fail_exc") or "RuntimeError"
    if kind == "FileNotFoundError":
        return FileNotFoundError(errno.ENOENT, "No such file or directory: 'template.html'")
    if kind == "PermissionError":
        return PermissionError(errno.EACCES, "Permission denied")
    if kind == "TimeoutError":
        return TimeoutError(errno.ETIMEDOUT, "upstream timed out")
    if kind == "OSError:EIO":
        return OSError(errno.EIO, "Input/output error")
    if kind == "ConnectionResetError":
        return ConnectionResetError(errno.ECONNRESET, "upstream reset")
    if kind == "KeyError":
        return KeyError(msg)
    if kind == "socket.timeout":
        import socket
        return socket.timeout("timed out")
    return RuntimeError(msg)


class AppProgram(object):
    """Interprets a program dict:
       status, headers [[k, v]...], mode in list|gen|write|write+list|file|bytesio, chunks [latin-1 str],
       file_offset, file_len (None = to EOF), read_input in none|all|some|line, lazy_start bool,
       fail in None|before_start|after_start|mid (after `fail_k` chunks)|in_close,
       restart: None | {"when": before_write|after_write, "exc_info": bool, "status":..., "headers":...}
    """

    def __init__(self, prog):
        self.progs = prog if isinstance(prog, list) else [prog]
        self.calls = []          # one record per invocation

    def __call__(self, environ, start_response):
        p = self.progs[min(len(self.calls), len(self.progs) - 1)]
        rec = {"environ": {k: v for k, v in environ.items() if isinstance(v, (str, int, bool, tuple))},
               "input": None, "raised": None, "completed": False, "start_calls": 0, "start_errors": [],
               "produced": 0, "closed": False}
        self.calls.append(rec)
        inp = environ["wsgi.input"]
        try:
            mode = p.get("read_input", "none")
            if mode == "all":
                rec["input"] = inp.read()
            elif mode == "some":
                rec["input"] = inp.read(3)
            elif mode == "line":
                rec["input"] = inp.readline()
        except BaseException as e:      # noqa
            rec["raised"] = "input:" + type(e).__name__
            raise
        if p.get("fail") == "before_start":
            rec["raised"] = "app:before_start"
            raise app_exception(p, "app failure before start_response")
        status = p.get("status", "200 OK")
        headers = [tuple(h) for h in p.get("headers", [])]

        def do_start():
            rec["start_calls"] += 1
            passed = list(headers)
            try:
                ret = start_response(status, passed)
            except BaseException as e:      # noqa
                rec["start_errors"].append(type(e).__name__)
                rec["raised"] = "start:" + type(e).__name__
                raise
            late = p.get("late_headers")
            if late:
                # the application goes on using its own list object after the call was accepted: what the server checked is what it sends
                if late == "append":
                    passed.append(("X-Late", "v\r\nSet-Cookie: forged=1"))
                elif late == "replace" and passed:
                    passed[0] = ("X Late", "x")
                elif late == "clear":
                    del passed[:]
                elif late == "extend":
                    passed.extend([("X-Late-A", "1"), ("Connection", "keep-alive")])
            return ret

        def do_restart(write=None):
            r = p.get("restart")
            rec["start_calls"] += 1
            try:
                if r.get("exc_info"):
                    try:
                        raise ValueError("app error")
                    except ValueError:
                        import sys
                        return start_response(r["status"], [tuple(h) for h in r["headers"]], sys.exc_info())
                return start_response(r["status"], [tuple(h) for h in r["headers"]])
            except BaseException as e:      # noqa
                rec["start_errors"].append(type(e).__name__)
                if r.get("catch") and isinstance(e, Exception):
                    # the application copes with the refusal and carries on with the response it had started
                    rec["restart_caught"] = True
                    return write
                rec["raised"] = "restart:" + type(e).__name__
                raise

        chunks = [c.encode("latin-1") if isinstance(c, str) else c for c in p.get("chunks", [])]
        mode = p.get("mode", "list")
        fail = p.get("fail")
        fail_k = p.get("fail_k", 0)
        restart = p.get("restart")

        if mode in ("file", "bytesio"):
            write = do_start()
            if fail == "after_start":
                rec["raised"] = "app:after_start"
                raise app_exception(p, "app failure after start_response")
            for c in (chunks if p.get("write_first") else []):
                rec["produced"] += len(c)
                try:
                    write(c)             # legal: some bytes through write(), the rest through the returned file wrapper
                except BaseException as e:      # noqa
                    rec["raised"] = "write:" + type(e).__name__
                    raise
            if mode == "file":
                f = open(data_file_path(), "rb", buffering=0)
                f.seek(p.get("file_offset", 0))
            else:
                f = io.BytesIO(FILE_BYTES[:p.get("bytesio_len", 5000)])
                f.seek(p.get("file_offset", 0) % 6000)
                if p.get("short_reads"):
                    f = ShortReader(f, p["short_reads"])
            rec["completed"] = True
            return environ["wsgi.file_wrapper"](f, p.get("blksize", 8192))

        app = self

        def gen():
            write = None
            if not p.get("lazy_start"):
                pass
            try:
                for i, c in enumerate(chunks):
                    if fail == "mid" and i == fail_k:
                        rec["raised"] = "app:mid"
                        raise app_exception(p, "app failure mid-body")
                    rec["produced"] += len(c)
                    yield c
                if fail == "mid" and fail_k >= len(chunks):
                    rec["raised"] = "app:mid"
                    raise app_exception(p, "app failure at end of body")
                rec["completed"] = True
            finally:
                pass

        class Closing(object):
            def __init__(self, it):
                self.it = it

            def __iter__(self):
                return self

            def __next__(self):
                return next(self.it)

            def close(self):
                rec["closed"] = True
                if fail == "in_close":
                    rec["raised"] = "app:in_close"
                    raise app_exception(p, "app failure in close()")

        if p.get("lazy_start"):
            def lazy():
                do_start()
                if fail == "after_start":
                    rec["raised"] = "app:after_start"
                    raise app_exception(p, "app failure after start_response")
                for c in gen():
                    yield c
            return Closing(lazy())

        write = do_start()
        if restart and restart.get("when") == "before_write":
            write = do_restart(write)
        if fail == "after_start":
            rec["raised"] = "app:after_start"
            raise app_exception(p, "app failure after start_response")
        if mode in ("write", "write+list"):
            nw = len(chunks) if mode == "write" else (len(chunks) + 1) // 2
            for i, c in enumerate(chunks[:nw]):
                if fail == "mid" and i == fail_k:
                    rec["raised"] = "app:mid"
                    raise app_exception(p, "app failure mid-body")
                rec["produced"] += len(c)
                try:
                    write(c)
                except BaseException as e:      # noqa
                    rec["raised"] = "write:" + type(e).__name__
                    raise
                if restart and restart.get("when") == "after_write" and i == 0:
                    write = do_restart(write)
            rest = chunks[nw:]
            if mode == "write":
                rec["completed"] = True
                return []
            chunks = rest
            fail_k = max(0, fail_k - nw)
        if mode == "gen" or fail in ("mid", "in_close") or p.get("closing"):
            return Closing(gen())
        if restart and restart.get("when") == "after_write":
            pass
        rec["produced"] += sum(len(c) for c in chunks)
        rec["completed"] = True
        return list(chunks)
